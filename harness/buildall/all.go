// Package buildall imports every woven kit package so that one build checks that the
// weaver's output compiles.
package buildall

import (
	_ "github.com/dapr/kit/byteslicepool"
	_ "github.com/dapr/kit/concurrency"
	_ "github.com/dapr/kit/concurrency/cmap"
	_ "github.com/dapr/kit/concurrency/dir"
	_ "github.com/dapr/kit/concurrency/fifo"
	_ "github.com/dapr/kit/concurrency/lock"
	_ "github.com/dapr/kit/concurrency/slice"
	_ "github.com/dapr/kit/context"
	_ "github.com/dapr/kit/cron"
	_ "github.com/dapr/kit/crypto/spiffe"
	_ "github.com/dapr/kit/events/batcher"
	_ "github.com/dapr/kit/events/broadcaster"
	_ "github.com/dapr/kit/events/queue"
	_ "github.com/dapr/kit/events/ratelimiting"
	_ "github.com/dapr/kit/schemes/enc/v1"
	_ "github.com/dapr/kit/streams"
	_ "github.com/dapr/kit/ttlcache"
)
