// Package spiffebody is the simulated workload around crypto/spiffe: a stub issuer with validity
// windows, failures and trust-anchor rotation from the tape, callers waiting for readiness, a
// filesystem seam with injected errors under the identity directory. It is the body of the C19
// harness, and — always with identity files — part of the C18 harness (crypto/spiffe is the caller
// of concurrency/dir that C18 is anchored in).
package spiffebody

import (
	"bytes"
	"context"
	"crypto/ecdsa"
	"crypto/elliptic"
	"crypto/rand"
	"crypto/x509"
	"crypto/x509/pkix"
	"errors"
	"fmt"
	"math/big"
	"net/url"
	"os"
	"path/filepath"
	"syscall"
	"time"

	"github.com/spiffe/go-spiffe/v2/bundle/x509bundle"
	"github.com/spiffe/go-spiffe/v2/spiffeid"

	kitpem "github.com/dapr/kit/crypto/pem"
	"github.com/dapr/kit/crypto/spiffe"

	"verif/harness/stublog"
	"verif/simos"
	"verif/simrt"
)

// MaxInjected is the injected-delay budget the C19 harness configures.
const MaxInjected = 3 * time.Second

const maxInjected = MaxInjected

// Options select a variant of the workload.
type Options struct {
	FilesAlways bool // always write identity files (C18)
}

var (
	caKey  *ecdsa.PrivateKey
	caCert *x509.Certificate
	caPEM  []byte
	// the trust-anchor bundle grows when the issuer adds a root: version i is caPEM followed by i further roots
	anchorVers [][]byte
)

func initCA() {
	if caKey != nil {
		return
	}
	caKey, _ = ecdsa.GenerateKey(elliptic.P256(), rand.Reader)
	tmpl := &x509.Certificate{SerialNumber: big.NewInt(1), Subject: pkix.Name{CommonName: "verif-ca"}, NotBefore: time.Unix(0, 0), NotAfter: time.Date(2100, 1, 1, 0, 0, 0, 0, time.UTC),
		IsCA: true, BasicConstraintsValid: true, KeyUsage: x509.KeyUsageCertSign}
	der, _ := x509.CreateCertificate(rand.Reader, tmpl, tmpl, &caKey.PublicKey, caKey)
	caCert, _ = x509.ParseCertificate(der)
	caPEM, _ = kitpem.EncodeX509(caCert)
	anchorVers = [][]byte{caPEM}
	for i := 0; i < 4; i++ {
		k, _ := ecdsa.GenerateKey(elliptic.P256(), rand.Reader)
		t2 := *tmpl
		t2.SerialNumber = big.NewInt(int64(2 + i))
		t2.Subject = pkix.Name{CommonName: fmt.Sprintf("verif-ca-%d", 2+i)}
		d2, _ := x509.CreateCertificate(rand.Reader, &t2, &t2, &k.PublicKey, k)
		c2, _ := x509.ParseCertificate(d2)
		p2, _ := kitpem.EncodeX509(c2)
		anchorVers = append(anchorVers, append(append([]byte{}, anchorVers[i]...), p2...))
	}
}

type anchors struct {
	fail bool
	cur  int // index into anchorVers: what the trust-anchor source holds right now
}

func (a *anchors) GetX509BundleForTrustDomain(td spiffeid.TrustDomain) (*x509bundle.Bundle, error) {
	return x509bundle.FromX509Authorities(td, []*x509.Certificate{caCert}), nil
}
func (a *anchors) CurrentTrustAnchors(ctx context.Context) ([]byte, error) {
	if a.fail {
		return nil, errors.New("trust anchors unavailable")
	}
	return anchorVers[a.cur], nil
}
func (a *anchors) Watch(ctx context.Context, ch chan<- []byte) {}
func (a *anchors) Run(ctx context.Context) error               { return nil }

type window struct{ before, after time.Duration } // notBefore = now-before, notAfter = now+after

var windows = []window{
	{0, 10 * time.Second}, {0, 2 * time.Minute}, {0, time.Hour}, {0, 24 * time.Hour}, {0, 365 * 24 * time.Hour},
	{10 * time.Second, 5 * time.Second},  // already past half-life
	{-5 * time.Second, 30 * time.Second}, // not yet valid
	{time.Minute, 3 * time.Minute},
	{15 * time.Minute, 45 * time.Minute}, // backdated, as issuers do to tolerate clock skew
	{10 * time.Minute, 20 * time.Minute},
}

type issue struct {
	n                  int
	reqStamp, retStamp uint64
	reqTime            time.Time
	ok                 bool
	serial             int64
	renew              time.Time // half-life of the issued certificate
	diskFailed         bool      // an injected disk error made this fetch fail after the issuer answered
	anchorVer          int       // the trust anchors current when the issuer answered
}

func (is *issue) good() bool { return is.ok && !is.diskFailed }

type fsHook struct {
	s      *simrt.Sim
	step   int
	failAt int
	cur    *issue
	check  func(string, *issue)
}

func (h *fsHook) Before(op string, args ...string) error {
	h.step++
	h.s.Logf("fs step %d %s (fail at %d)", h.step, op, h.failAt)
	if h.step == h.failAt {
		if h.cur != nil {
			h.cur.diskFailed = true
		}
		h.s.Fault("fs.error")
		return syscall.EIO
	}
	return nil
}
func (h *fsHook) After(op string, err error) {
	h.check(fmt.Sprintf("after fs step %d (%s)", h.step, op), nil)
}

var runSeq int

// Body is one simulated run.
func Body(s *simrt.Sim, tier string, o Options) {
	initCA()
	withFiles := s.Choose(3, "files") == 0 || o.FilesAlways
	var target *string
	var root string
	if withFiles {
		scratch := os.Getenv("VERIF_SCRATCH")
		if scratch == "" {
			scratch = filepath.Join(os.TempDir(), "verif-c19")
		}
		runSeq++
		root = filepath.Join(scratch, fmt.Sprintf("r%d", runSeq))
		os.RemoveAll(root)
		os.MkdirAll(root, 0o755)
		defer os.RemoveAll(root)
		defer simos.SetHook(nil)
		t := filepath.Join(root, "id", "tls")
		target = &t
	}
	// issuer plan
	nplan := 12
	type plan struct {
		fail int // 0 ok, 1 error, 2 empty chain, 3/4 an error wrapping a context error of the request's own (per-request timeout), Run's context being alive
		win  window
		disk int // fs step at which an EIO is injected during this fetch (0 = none)
		noTA bool // the trust-anchor source is unavailable during this fetch: with identity files the fetch fails as a whole
	}
	var plans []plan
	pastHalf := 0
	for i := 0; i < nplan; i++ {
		p := plan{win: windows[s.Choose(len(windows), "window")]}
		if s.Choose(4, "issuerfail") == 0 {
			p.fail = 1 + s.Choose(4, "failkind")
		}
		if p.win.before >= p.win.after && p.win.before > 0 {
			pastHalf++
			if pastHalf > 2 {
				p.win = windows[1]
			}
		} else {
			pastHalf = 0
		}
		if withFiles && s.Choose(5, "diskfault") == 0 {
			p.disk = 1 + s.Choose(9, "diskstep")
		} else if withFiles && s.Choose(8, "noanchors") == 0 {
			p.noTA = true
		}
		plans = append(plans, p)
	}
	ta := &anchors{}
	var issues []*issue
	seenKeys := map[string]bool{}
	var hook *fsHook

	checkFiles := func(where string, atRest *issue) {
		if target == nil {
			return
		}
		ents, err := os.ReadDir(*target)
		if err != nil {
			// absent before the first publication — but at rest, after a fetch that went through, the identity is there
			if atRest != nil {
				s.Fail("identity-files-missing", fmt.Sprintf("%s: fetch #%d succeeded (no disk error was injected) but the identity directory does not exist", where, atRest.n))
			}
			return
		}
		got := map[string][]byte{}
		for _, e := range ents {
			b, _ := os.ReadFile(filepath.Join(*target, e.Name()))
			got[e.Name()] = b
		}
		if len(got) != 3 || got["key.pem"] == nil || got["cert.pem"] == nil || got["ca.pem"] == nil {
			s.Fail("identity-files-incomplete", fmt.Sprintf("%s: identity directory holds %d files", where, len(got)))
			return
		}
		key, err1 := kitpem.DecodePEMPrivateKey(got["key.pem"])
		chain, err2 := kitpem.DecodePEMCertificatesChain(got["cert.pem"])
		if err1 != nil || err2 != nil || len(chain) == 0 {
			s.Fail("identity-files-corrupt", fmt.Sprintf("%s: %v %v", where, err1, err2))
			return
		}
		if eq, _ := kitpem.PublicKeysEqual(key.Public(), chain[0].PublicKey); !eq {
			s.Fail("identity-files-mixed", where+": key.pem does not belong to cert.pem (files of two different fetches are mixed)")
		}
		ver := -1
		for i, v := range anchorVers {
			if bytes.Equal(got["ca.pem"], v) {
				ver = i
			}
		}
		if ver < 0 {
			s.Fail("identity-files-ca", where+": ca.pem is not a trust-anchor bundle the source ever held")
			return
		}
		// the set is published after the issuer answered: its ca.pem is what the trust-anchor source
		// held at some moment since then, never a bundle that was replaced while the request was in flight
		if where == "at rest" {
			// the published identity is at least as recent as the latest fetch that had gone through when the loop came to rest
			// (a later fetch may be under way by now: newer is fine, older is not)
			if atRest != nil {
				var pub *issue
				for _, is := range issues {
					if is.ok && is.serial == chain[0].SerialNumber.Int64() {
						pub = is
					}
				}
				if pub == nil || pub.n < atRest.n {
					s.Fail("identity-files-stale", fmt.Sprintf("%s: fetch #%d (serial %d) had succeeded when the rotation loop came to rest, but cert.pem holds serial %d", where, atRest.n, atRest.serial, chain[0].SerialNumber.Int64()))
				}
			}
		}
		if where == "at rest" {
			// no fetch is in progress: without injected disk errors the identity directory's parent holds the
			// link and the one version directory it points to, nothing of earlier rotations
			clean := true
			for _, is := range issues {
				if is.diskFailed {
					clean = false
				}
			}
			if ents, err := os.ReadDir(filepath.Dir(*target)); err == nil && clean && len(ents) != 2 {
				var names []string
				for _, e := range ents {
					names = append(names, e.Name())
				}
				s.Fail("identity-dir-leftovers", fmt.Sprintf("%s: after %d fetches without any disk error the parent of the identity directory holds %v (expected the link and one version directory)", where, len(issues), names))
			}
		}
		for _, is := range issues {
			if is.ok && chain[0].SerialNumber.Int64() == is.serial && ver < is.anchorVer {
				s.Fail("identity-files-stale-anchors", fmt.Sprintf("%s: cert.pem is the certificate of fetch #%d, but ca.pem is trust-anchor bundle v%d, replaced by v%d before the issuer answered that fetch", where, is.n, ver, is.anchorVer))
			}
		}
	}

	requestFn := func(ctx context.Context, csrDER []byte) ([]*x509.Certificate, error) {
		is := &issue{n: len(issues), reqStamp: s.Stamp(), reqTime: time.Now()}
		issues = append(issues, is)
		p := plans[len(plans)-1]
		if is.n < len(plans) {
			p = plans[is.n]
		} else {
			p = plan{win: windows[2]}
		}
		csr, err := x509.ParseCertificateRequest(csrDER)
		if err != nil {
			s.Fail("bad-csr", err.Error())
			return nil, err
		}
		pk, _ := x509.MarshalPKIXPublicKey(csr.PublicKey)
		if seenKeys[string(pk)] {
			s.Fail("key-reused", fmt.Sprintf("fetch #%d presents a public key that an earlier fetch already used", is.n))
		}
		seenKeys[string(pk)] = true
		s.Logf("issuer request #%d at %v plan %+v", is.n, time.Now().Format("15:04:05"), p)
		s.Sleep(time.Duration(1+s.Choose(20, "latency")) * time.Millisecond) // network round trip: time passes during every fetch
		if target != nil && ta.cur < len(anchorVers)-1 && s.Choose(4, "anchors.rotate") == 0 {
			// the issuer adds a root while the request is in flight; the source is updated before the answer arrives
			ta.cur++
			s.Fault("anchors.rotate")
			s.Sleep(time.Millisecond)
		}
		is.anchorVer = ta.cur
		if hook != nil {
			hook.failAt, hook.step, hook.cur = -1, 0, is
			if p.disk > 0 && p.fail == 0 {
				hook.failAt = p.disk
			}
		}
		ta.fail = false
		if p.noTA && p.fail == 0 && target != nil {
			ta.fail = true
			is.diskFailed = true // (the fetch fails after the issuer answered, like a failed write: nothing is published, nothing is served)
			s.Fault("anchors.unavailable")
		}
		is.retStamp = s.Stamp()
		switch p.fail {
		case 1:
			s.Fault("issuer.error")
			return nil, errors.New("issuer unavailable")
		case 2:
			s.Fault("issuer.empty")
			return nil, nil
		case 3:
			s.Fault("issuer.timeout")
			return nil, fmt.Errorf("signing request timed out: %w", context.DeadlineExceeded)
		case 4:
			s.Fault("issuer.timeout")
			return nil, fmt.Errorf("signing request abandoned: %w", context.Canceled)
		}
		now := time.Now()
		is.serial = int64(100 + is.n)
		nb, na := now.Add(-p.win.before), now.Add(p.win.after)
		is.renew = nb.Add(na.Sub(nb) / 2)
		tmpl := &x509.Certificate{SerialNumber: big.NewInt(is.serial), NotBefore: nb, NotAfter: na,
			URIs: []*url.URL{{Scheme: "spiffe", Host: "example.org", Path: "/ns/test/app"}}, KeyUsage: x509.KeyUsageDigitalSignature}
		der, err := x509.CreateCertificate(rand.Reader, tmpl, caCert, csr.PublicKey, caKey)
		if err != nil {
			s.Fail("infra-sign", err.Error())
			return nil, err
		}
		cert, _ := x509.ParseCertificate(der)
		is.ok = true
		return []*x509.Certificate{cert}, nil
	}
	sp := spiffe.New(spiffe.Options{Log: stublog.Log{}, RequestSVIDFn: requestFn, WriteIdentityToFile: target, TrustAnchors: ta})
	if withFiles {
		hook = &fsHook{s: s, failAt: -1, check: checkFiles}
		simos.SetHook(hook)
	}
	src := sp.SVIDSource()
	ctx, cancel := context.WithCancel(context.Background())
	defer cancel()
	var runErr error
	runDone := false
	// Run may be handed a context that has already ended: readiness must still resolve (one way or the other)
	preCancelled := s.Choose(8, "precancel") == 0
	if preCancelled {
		cancel()
		s.Fault("ctx.cancel")
	}
	s.Go("runner", func() {
		runErr = sp.Run(ctx)
		runDone = true
	})
	// first calls in every order: the scheduler decides who goes first
	nready, nget := s.Choose(3, "nready"), 1+s.Choose(2, "nget")
	var early []string
	type getRes struct {
		serial int64
		err    error
		done   bool
	}
	gets := make([]*getRes, nget)
	for i := 0; i < nready; i++ {
		name := fmt.Sprintf("ready%d", i)
		early = append(early, name)
		s.Go(name, func() {
			if err := sp.Ready(context.Background()); err != nil {
				s.Fail("ready-error", err.Error())
			}
		})
	}
	// a Ready caller whose own context ends must get that context's error (or nil if readiness won)
	if s.Choose(3, "readyctx") == 0 {
		rctx, rcancel := context.WithCancel(context.Background())
		early = append(early, "readyc", "readycancel")
		s.Go("readyc", func() {
			if err := sp.Ready(rctx); err != nil && !errors.Is(err, context.Canceled) {
				s.Fail("ready-error", fmt.Sprintf("Ready with a cancelled context returned %v", err))
			}
		})
		s.Go("readycancel", func() {
			s.Yield("readycancel")
			rcancel()
			s.Fault("ctx.cancel")
		})
	}
	for i := 0; i < nget; i++ {
		i := i
		gets[i] = &getRes{}
		name := fmt.Sprintf("get%d", i)
		early = append(early, name)
		s.Go(name, func() {
			sv, err := src.GetX509SVID()
			gets[i].err = err
			if sv != nil {
				gets[i].serial = sv.Certificates[0].SerialNumber.Int64()
			}
			gets[i].done = true
		})
	}
	if !s.Join(30*time.Second, early...) {
		s.Fail("readiness-deadlock", "Ready / GetX509SVID did not return after the initial fetch\n"+s.Dump())
		return
	}
	if len(issues) == 0 {
		// no fetch was attempted (only conceivable with a context that had ended already): nobody may have been given an SVID
		for i, g := range gets {
			if g.err == nil {
				s.Fail("svid-after-failed-fetch", fmt.Sprintf("GetX509SVID #%d returned serial %d although no certificate was ever requested", i, g.serial))
			}
		}
		return
	}
	first := issues[0]
	initialOK := first.good()
	for i, g := range gets {
		if initialOK && (g.err != nil || g.serial != first.serial) {
			// a renewal may already have replaced it
			okLater := false
			for _, is := range issues {
				if is.good() && is.serial == g.serial {
					okLater = true
				}
			}
			if g.err != nil || !okLater {
				s.Fail("get-after-ready", fmt.Sprintf("GetX509SVID #%d returned (serial %d, %v) after a successful initial fetch (serial %d)", i, g.serial, g.err, first.serial))
			}
		}
		if !initialOK && g.err == nil {
			s.Fail("svid-after-failed-fetch", fmt.Sprintf("GetX509SVID #%d returned serial %d although the initial fetch failed", i, g.serial))
		}
	}
	if !initialOK {
		if !s.WaitUntil("run.ret", 30*time.Second, func() bool { return runDone }) || runErr == nil {
			s.Fail("run-after-failed-fetch", fmt.Sprintf("the initial fetch failed but Run did not return an error (returned=%v err=%v)", runDone, runErr))
		}
		return
	}
	if preCancelled {
		if !s.WaitUntil("run.ret", 30*time.Second, func() bool { return runDone }) {
			s.Fail("run-not-returned-after-cancel", "Run was given a context that had already ended and did not return\n"+s.Dump())
		}
		return
	}
	// ---- rotation: advance the clock in steps, check at quiescent points
	steps := []time.Duration{time.Second, 5 * time.Second, 10 * time.Second, 30 * time.Second, 61 * time.Second, 10 * time.Minute, time.Hour}
	for i, n := 0, 2+s.Choose(6, "nsteps"); i < n; i++ {
		s.Sleep(steps[s.Choose(len(steps), "step")])
		// quiescent: the rotation loop is parked in its select
		if !s.WaitUntil("quiesce", 20*time.Second, func() bool { return s.PredAtRest("runner", "sleep") }) {
			s.Fail("rotation-stuck", "the rotation loop did not come to rest\n"+s.Dump())
			return
		}
		now := time.Now()
		// what has been fetched successfully by this point of rest has been swapped in; GetX509SVID below has
		// scheduling points of its own, so a renewal may complete while it runs: newer is fine, older is not
		var atRest *issue
		for _, is := range issues {
			if is.good() && is.retStamp != 0 {
				atRest = is
			}
		}
		// the files are judged now, before anything with a scheduling point of its own: the loop is parked, no fetch is under way
		checkFiles("at rest", atRest)
		sv, err := src.GetX509SVID()
		if err != nil {
			s.Fail("svid-lost", fmt.Sprintf("GetX509SVID failed after a successful fetch: %v", err))
			return
		}
		serial := sv.Certificates[0].SerialNumber.Int64()
		// the served SVID is the most recent successfully fetched one
		var served *issue
		var latestOK *issue
		for _, is := range issues {
			if is.ok && is.serial == serial {
				served = is
			}
		}
		for _, is := range issues {
			if is.good() {
				latestOK = is
			}
		}
		if served == nil {
			s.Fail("svid-unknown", fmt.Sprintf("served serial %d was never issued", serial))
			return
		}
		_ = latestOK
		if atRest != nil && served.n < atRest.n {
			s.Fail("stale-svid", fmt.Sprintf("the served SVID is serial %d although fetch #%d (serial %d) had succeeded before the rotation loop came to rest", serial, atRest.n, atRest.serial))
		}
		// renewal no later than one minute after half-life (plus injected delay)
		if now.After(served.renew.Add(time.Minute + maxInjected + time.Second)) {
			// some request must have been made after the served certificate was issued
			later := false
			for _, is := range issues {
				if is.n > served.n {
					later = true
				}
			}
			if !later {
				s.Fail("renewal-overdue", fmt.Sprintf("served certificate (serial %d) passed half-life at %v, it is now %v and no renewal was requested", serial, served.renew.Format("15:04:05"), now.Format("15:04:05")))
			}
		}
	}
	// request timing over the whole history
	for i := 1; i < len(issues); i++ {
		prev, cur := issues[i-1], issues[i]
		if !prev.good() {
			// retry every 10 s
			if d := cur.reqTime.Sub(prev.reqTime); d < 10*time.Second || d > 10*time.Second+maxInjected+time.Second {
				s.Fail("retry-interval", fmt.Sprintf("fetch #%d failed at %v; the next request came %v later (expected 10s)", prev.n, prev.reqTime.Format("15:04:05"), d))
			}
		} else {
			due := prev.renew
			if prev.reqTime.After(due) {
				due = prev.reqTime
			}
			if cur.reqTime.After(due.Add(time.Minute + maxInjected + time.Second)) {
				s.Fail("renewal-late", fmt.Sprintf("certificate #%d passed half-life at %v but its renewal was requested at %v", prev.n, prev.renew.Format("15:04:05"), cur.reqTime.Format("15:04:05")))
			}
		}
	}
	cancel()
	if !s.WaitUntil("run.ret", 2*time.Minute, func() bool { return runDone }) {
		s.Fail("run-hang", "Run did not return after its context was cancelled\n"+s.Dump())
	}
}
