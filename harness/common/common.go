// Package common is the worker side of every check: it runs a batch of simulated runs of
// one harness, shrinks and records violations, replays recorded tapes, and writes the
// counters from which the driver builds the evidence file.
package common

import (
	"encoding/binary"
	"encoding/json"
	"fmt"
	"os"
	"path/filepath"
	"runtime"
	"runtime/pprof"
	"sort"
	"strconv"
	"strings"
	"testing"
	"testing/cryptotest"
	"time"

	"verif/simrt"
)

// Harness describes one property's simulation.
type Harness struct {
	ID string
	// Palette of delays S may inject (timescale of the component).
	DelayPalette []time.Duration
	MaxDelay     time.Duration
	NoDelays     bool
	MaxSteps     uint64
	// Body is one simulated run; it draws its workload from s.Choose.
	Body func(s *simrt.Sim, tier string)
	// Signature maps a violation to the stable signature used for known-finding matching
	// (default: the oracle id).
	Signature func(v *simrt.Violation) string
	// SeedCrypto makes crypto/rand deterministic per run (seeded by one tape entry), for
	// harnesses in which random keys or nonces influence what the run observes.
	SeedCrypto bool
	// NonTrivial overrides the default rule (a context switch or an injected fault happened).
	NonTrivial func(res *simrt.Result) bool
	// Describe renders a sample of what a run looked like (for evidence), optional.
	Describe func(res *simrt.Result) string
}

// ViolationRecord is what a worker reports per violation.
type ViolationRecord struct {
	Property  string `json:"property"`
	Oracle    string `json:"oracle_id"`
	Signature string `json:"signature"`
	Detail    string `json:"detail"`
	Seed      uint64 `json:"seed"`
	RunIndex  uint64 `json:"run_index"`
	Replay    string `json:"replay"`
	TapeLen   int    `json:"tape_len"`
	MinLen    int    `json:"min_tape_len"`
}

// Replay is the on-disk replay file.
type Replay struct {
	Property  string            `json:"property"`
	Oracle    string            `json:"oracle_id"`
	Signature string            `json:"signature"`
	Detail    string            `json:"detail"`
	Seed      uint64            `json:"seed"`
	RunIndex  uint64            `json:"run_index"`
	Tier      string            `json:"tier"`
	Tape      []simrt.TapeEntry `json:"tape"`
	Trace     []string          `json:"trace"`
	TraceHash string            `json:"trace_hash"`
	Faults    map[string]int    `json:"faults"`
	// If the code under test keeps state of its own across runs (a package-level cache, a batch of random
	// bytes) a run is not a function of its tape alone; it still is a function of the runs its worker
	// executed before it. For that case the replay file also carries the unshrunk tape of the failing run
	// and where its worker started: replaying runs [history_from, run_index) and then that tape in a
	// fresh process reproduces the failure exactly.
	OrigTape      []simrt.TapeEntry `json:"orig_tape,omitempty"`
	OrigTraceHash string            `json:"orig_trace_hash,omitempty"`
	HistoryFrom   *uint64           `json:"history_from,omitempty"`
}

// WorkerOut is the JSON a worker writes.
type WorkerOut struct {
	Property   string            `json:"property"`
	Tier       string            `json:"tier"`
	Seed       uint64            `json:"seed"`
	From       uint64            `json:"from"`
	To         uint64            `json:"to"`
	Runs       uint64            `json:"runs"`
	Nontrivial uint64            `json:"nontrivial_runs"`
	Steps      uint64            `json:"steps"`
	Switches   uint64            `json:"switches"`
	SimTimeNs  int64             `json:"sim_time_ns"`
	Leaked     uint64            `json:"leaked_runs"`
	Faults     map[string]int    `json:"faults"`
	Probes     map[string]int    `json:"probes"`
	Oracles    map[string]int    `json:"violations_by_signature"`
	Violations []ViolationRecord `json:"violations"`
	Samples    []string          `json:"samples"`
	SiteHits   map[string]uint64 `json:"site_hits,omitempty"`
	HashFile   string            `json:"hash_file"`
	Distinct   int               `json:"distinct_local"`
	WallS      float64           `json:"wall_s"`
	Complete   bool              `json:"complete"`
	Truncated  bool              `json:"truncated,omitempty"` // stopped before VERIF_TO because the process had grown too large: the driver continues from To in a fresh one
	ReplayOK   *bool             `json:"replay_ok,omitempty"`
	ReplayMsg  string            `json:"replay_msg,omitempty"`
}

func envU(name string, def uint64) uint64 {
	if v := os.Getenv(name); v != "" {
		if u, err := strconv.ParseUint(v, 10, 64); err == nil {
			return u
		}
		if i, err := strconv.ParseInt(v, 10, 64); err == nil {
			return uint64(i)
		}
	}
	return def
}

var swarmSwitch = [][2]int{{1, 50}, {1, 10}, {3, 10}, {6, 10}}

func (h *Harness) configure(record bool) func(src simrt.Source) simrt.Config {
	return func(src simrt.Source) simrt.Config {
		sw := swarmSwitch[src.Choose(len(swarmSwitch), "cfg.switch")]
		c := simrt.Config{SwitchNum: sw[0], SwitchDen: sw[1], Record: record, MaxSteps: h.MaxSteps, Debug: os.Getenv("VERIF_DEBUG") != ""}
		c.Strategy = src.Choose(3, "cfg.strategy")
		c.MemYields = src.Choose(3, "cfg.memyields") == 1 // one run in three also switches at plain shared-memory accesses
		if !h.NoDelays && len(h.DelayPalette) > 0 {
			switch src.Choose(3, "cfg.delay") {
			case 1:
				c.TimeNum, c.TimeDen = 1, 20
			case 2:
				c.TimeNum, c.TimeDen = 1, 5
			}
			c.DelayPalette = h.DelayPalette
			c.MaxInjectedDelay = h.MaxDelay
		}
		return c
	}
}

func (h *Harness) sig(v *simrt.Violation) string {
	if h.Signature != nil {
		return h.Signature(v)
	}
	return v.Oracle
}

// progress beacon: the driver tells a worker that computes from one that is stuck inside a single
// run (a loop in kit code that never reaches a scheduling point) by watching this counter move.
var (
	progressFile *os.File
	progressN    uint64
	curRun       uint64
)

func beacon() {
	if progressFile == nil {
		p := os.Getenv("VERIF_PROGRESS")
		if p == "" {
			return
		}
		f, err := os.OpenFile(p, os.O_CREATE|os.O_WRONLY, 0o644)
		if err != nil {
			return
		}
		progressFile = f
	}
	progressN++
	progressFile.WriteAt([]byte(fmt.Sprintf("%020d %020d\n", progressN, curRun)), 0)
}

// logSource writes every decision to a file as it is drawn, so that the decisions of a run that
// never returns are still on disk.
type logSource struct {
	simrt.Source
	f *os.File
}

func (l *logSource) Choose(n int, kind string) int {
	v := l.Source.Choose(n, kind)
	if n > 1 {
		fmt.Fprintf(l.f, "%s\t%d\t%d\n", kind, n, v)
	}
	return v
}

func (h *Harness) runOnce(t *testing.T, src simrt.Source, tier string, record bool) simrt.Result {
	beacon()
	if h.SeedCrypto {
		cryptotest.SetGlobalRandom(t, uint64(src.Choose(1<<30, "cryptoseed")))
	}
	return simrt.Execute(t, src, h.configure(record), func(s *simrt.Sim) { h.Body(s, tier) })
}

// shrink minimises a failing tape by delta debugging: drop spans, then zero entries, then
// halve values, accepting a candidate iff the same signature fires.
func (h *Harness) shrink(t *testing.T, tape []simrt.TapeEntry, tier, sig string, budget time.Duration) []simrt.TapeEntry {
	deadline := time.Now().Add(budget)
	fails := func(c []simrt.TapeEntry) ([]simrt.TapeEntry, bool) {
		res := h.runOnce(t, simrt.NewTape(c), tier, false)
		if res.Violation != nil && h.sig(res.Violation) == sig {
			return res.Tape, true
		}
		return nil, false
	}
	cost := func(c []simrt.TapeEntry) int {
		nz := 0
		for _, e := range c {
			if e.V != 0 {
				nz++
			}
		}
		return nz*3 + len(c)*2 // fewer decisions and simpler (zero) decisions are both better
	}
	best := tape
	for pass := 0; pass < 4; pass++ {
		startCost := cost(best)
		// drop spans
		for chunk := len(best) / 2; chunk >= 1; chunk /= 2 {
			for i := 0; i+chunk <= len(best); {
				if time.Now().After(deadline) {
					return best
				}
				cand := append(append([]simrt.TapeEntry(nil), best[:i]...), best[i+chunk:]...)
				if eff, ok := fails(cand); ok && cost(eff) < cost(best) {
					best = eff
				} else {
					i += chunk
				}
			}
		}
		// zero / halve single entries (0 always means "simpler")
		for i := 0; i < len(best); i++ {
			if time.Now().After(deadline) {
				return best
			}
			if best[i].V == 0 {
				continue
			}
			for _, v := range []int{0, best[i].V / 2} {
				if v == best[i].V {
					continue
				}
				cand := append([]simrt.TapeEntry(nil), best...)
				cand[i].V = v
				if eff, ok := fails(cand); ok && cost(eff) < cost(best) {
					best = eff
					break
				}
			}
		}
		if cost(best) >= startCost {
			break
		}
	}
	return best
}

// Main is called from each harness's TestWorker.
func Main(t *testing.T, h Harness) {
	mode := os.Getenv("VERIF_MODE")
	out := os.Getenv("VERIF_OUT")
	tier := os.Getenv("VERIF_TIER")
	if tier == "" {
		tier = "quick"
	}
	if mode == "" {
		mode = "search"
	}
	wo := WorkerOut{Property: h.ID, Tier: tier, Faults: map[string]int{}, Probes: map[string]int{}, Oracles: map[string]int{}}
	write := func() {
		if out == "" {
			js, _ := json.MarshalIndent(wo, "", " ")
			fmt.Println(string(js))
			return
		}
		js, _ := json.Marshal(wo)
		tmp := out + ".tmp"
		os.WriteFile(tmp, js, 0o644)
		os.Rename(tmp, out)
	}
	start := time.Now()
	switch mode {
	case "replay":
		var rp Replay
		data, err := os.ReadFile(os.Getenv("VERIF_REPLAY"))
		if err != nil || json.Unmarshal(data, &rp) != nil {
			t.Fatalf("cannot read replay file: %v", err)
		}
		res := h.runOnce(t, simrt.NewTape(rp.Tape), rp.Tier, true)
		ok := res.Violation != nil && h.sig(res.Violation) == rp.Signature && fmt.Sprintf("%016x", res.TraceHash) == rp.TraceHash
		withHistory := false
		if !ok && rp.HistoryFrom != nil && len(rp.OrigTape) > 0 && rp.RunIndex >= *rp.HistoryFrom && rp.RunIndex-*rp.HistoryFrom <= 3_000_000 && os.Getenv("VERIF_REPLAY_FRESH") == "" {
			// second attempt, in a process of its own (the driver starts one with VERIF_REPLAY_HISTORY=1): the
			// runs that preceded the failing one in its worker, then the failing run's own tape
			if os.Getenv("VERIF_REPLAY_HISTORY") != "" {
				for j := *rp.HistoryFrom; j < rp.RunIndex; j++ {
					h.runOnce(t, simrt.NewRNG(simrt.SplitMix(rp.Seed, j)), rp.Tier, false)
				}
				res = h.runOnce(t, simrt.NewTape(rp.OrigTape), rp.Tier, true)
				ok = res.Violation != nil && h.sig(res.Violation) == rp.Signature && fmt.Sprintf("%016x", res.TraceHash) == rp.OrigTraceHash
				withHistory = true
			}
		}
		wo.ReplayOK = &ok
		if res.Violation == nil {
			wo.ReplayMsg = "no violation on replay"
		} else if withHistory {
			wo.ReplayMsg = fmt.Sprintf("oracle=%s signature=%s trace_hash=%016x (recorded %s / %s), reproduced after the %d runs that preceded it in its worker: the code under test keeps state across runs\n%s", res.Violation.Oracle, h.sig(res.Violation), res.TraceHash, rp.Signature, rp.OrigTraceHash, rp.RunIndex-*rp.HistoryFrom, res.Violation.Detail)
		} else {
			wo.ReplayMsg = fmt.Sprintf("oracle=%s signature=%s trace_hash=%016x (recorded %s / %s)\n%s", res.Violation.Oracle, h.sig(res.Violation), res.TraceHash, rp.Signature, rp.TraceHash, res.Violation.Detail)
		}
		wo.Samples = res.Trace
		wo.WallS = time.Since(start).Seconds()
		wo.Complete = true
		write()
		return
	case "probe":
		// one run of a batch again, with its decisions logged as they are drawn: the driver uses this to
		// turn "a worker stopped making progress in run i" into a replayable tape (or into nothing, if
		// the run completes here)
		seed, i := envU("VERIF_SEED", 1), envU("VERIF_RUN", 0)
		var src simrt.Source = simrt.NewRNG(simrt.SplitMix(seed, i))
		if rp := os.Getenv("VERIF_REPLAY"); rp != "" {
			var r Replay
			data, err := os.ReadFile(rp)
			if err != nil || json.Unmarshal(data, &r) != nil {
				t.Fatalf("cannot read replay file: %v", err)
			}
			src = simrt.NewTape(r.Tape)
		}
		if lf := os.Getenv("VERIF_TAPELOG"); lf != "" {
			f, err := os.Create(lf)
			if err != nil {
				t.Fatalf("tape log: %v", err)
			}
			src = &logSource{Source: src, f: f}
		}
		curRun = i
		res := h.runOnce(t, src, tier, os.Getenv("VERIF_RECORD") != "")
		wo.Samples = res.Trace
		if res.Violation != nil {
			wo.ReplayMsg = "the run completed with oracle " + res.Violation.Oracle
		} else {
			wo.ReplayMsg = "the run completed"
		}
		wo.Complete = true
		write()
		return
	case "merge":
		// count distinct 64-bit hashes over the workers' sorted hash files (k-way merge)
		files := strings.Split(os.Getenv("VERIF_MERGE"), ",")
		var all []uint64
		for _, f := range files {
			if f == "" {
				continue
			}
			b, err := os.ReadFile(f)
			if err != nil {
				continue
			}
			for i := 0; i+8 <= len(b); i += 8 {
				all = append(all, binary.LittleEndian.Uint64(b[i:]))
			}
		}
		sort.Slice(all, func(i, j int) bool { return all[i] < all[j] })
		n := 0
		for i := range all {
			if i == 0 || all[i] != all[i-1] {
				n++
			}
		}
		wo.Distinct = n
		wo.Complete = true
		write()
		return
	case "trace":
		// print the trace hash of runs [from,to) — used by the determinism self-test
		seed, from, to := envU("VERIF_SEED", 1), envU("VERIF_FROM", 0), envU("VERIF_TO", 100)
		for i := from; i < to; i++ {
			res := h.runOnce(t, simrt.NewRNG(simrt.SplitMix(seed, i)), tier, os.Getenv("VERIF_RECORD") != "")
			if os.Getenv("VERIF_RECORD") != "" {
				wo.Samples = append(wo.Samples, res.Trace...)
			}
			v := "-"
			if res.Violation != nil {
				v = res.Violation.Oracle
			}
			wo.Samples = append(wo.Samples, fmt.Sprintf("%d %016x %d %d %s", i, res.TraceHash, res.Steps, len(res.Tape), v))
		}
		wo.Complete = true
		write()
		return
	}
	seed, from, to := envU("VERIF_SEED", 1), envU("VERIF_FROM", 0), envU("VERIF_TO", 1000)
	wall := time.Duration(envU("VERIF_WALL", 3600)) * time.Second
	maxViol := int(envU("VERIF_MAXVIOL", 6))
	// signatures listed in known_findings.json are counted, not shrunk or recorded: they must not use up the
	// per-worker quota of recorded violations and so keep a new one from being recorded
	knownSigs := map[string]bool{}
	for _, k := range strings.Split(os.Getenv("VERIF_KNOWN_SIGS"), "\n") {
		if k != "" {
			knownSigs[k] = true
		}
	}
	replayDir := os.Getenv("VERIF_REPLAY_DIR")
	memLimit := envU("VERIF_MEMLIMIT", 1<<30)
	wo.Seed, wo.From, wo.To = seed, from, to
	hashes := map[uint64]struct{}{}
	perSig := map[string]int{}
	lastWrite := time.Now()
	// The runs are executed in sub-tests of a few thousand runs each: what a run registers with its
	// *testing.T (cryptotest.SetGlobalRandom keeps a clean-up and a generator per call) is released when the
	// chunk ends, instead of piling up over the million runs of a thorough batch.
	var tt *testing.T
	oneRun := func(i uint64) {
		rs := simrt.SplitMix(seed, i)
		curRun = i
		res := h.runOnce(tt, simrt.NewRNG(rs), tier, false)
		wo.Runs++
		wo.To = i + 1
		wo.Steps += res.Steps
		wo.Switches += res.Switches
		wo.SimTimeNs += int64(res.SimTime)
		if res.Leaked {
			wo.Leaked++
		}
		nf := 0
		for k, v := range res.Faults {
			wo.Faults[k] += v
			nf += v
		}
		for k, v := range res.Probes {
			wo.Probes[k] += v
		}
		nontrivial := res.Switches > 0 || nf > 0
		if h.NonTrivial != nil {
			nontrivial = h.NonTrivial(&res)
		}
		if nontrivial {
			wo.Nontrivial++
			if len(hashes) < 4_000_000 {
				// a case is identified by its event trace and by every decision drawn for it
				hh := res.TraceHash
				for _, e := range res.Tape {
					hh = (hh ^ uint64(e.V)*0x9e3779b97f4a7c15 ^ uint64(e.N)) * 1099511628211
				}
				hashes[hh] = struct{}{}
			}
		}
		if len(wo.Samples) < 1 && nontrivial && res.Violation == nil {
			// a sample case for the evidence: the same run again with the trace recorded
			rr := h.runOnce(tt, simrt.NewTape(res.Tape), tier, true)
			lines := rr.Trace
			if len(lines) > 40 {
				lines = append(append([]string(nil), lines[:30]...), fmt.Sprintf("... %d more events", len(rr.Trace)-30))
			}
			wo.Samples = append(wo.Samples, fmt.Sprintf("run %d (seed %d, %d decisions, %d scheduler steps): %s", i, rs, len(res.Tape), res.Steps, strings.Join(lines, " | ")))
		}
		if res.Violation != nil {
			sig := h.sig(res.Violation)
			wo.Oracles[sig]++
			perSig[sig]++
			if perSig[sig] <= 2 && len(wo.Violations) < maxViol && !knownSigs[sig] {
				min := h.shrink(tt, res.Tape, tier, sig, 8*time.Second)
				rr := h.runOnce(tt, simrt.NewTape(min), tier, true)
				rec := ViolationRecord{Property: h.ID, Oracle: res.Violation.Oracle, Signature: sig, Detail: res.Violation.Detail, Seed: seed, RunIndex: i, TapeLen: len(res.Tape), MinLen: len(min)}
				if rr.Violation != nil && h.sig(rr.Violation) == sig {
					rec.Detail = rr.Violation.Detail
					rec.Oracle = rr.Violation.Oracle
				} else {
					// shrinking lost it (should not happen): fall back to the original tape
					min = res.Tape
					rr = h.runOnce(tt, simrt.NewTape(min), tier, true)
					rec.MinLen = len(min)
				}
				if replayDir != "" {
					hf := from
					rp := Replay{Property: h.ID, Oracle: rec.Oracle, Signature: sig, Detail: rec.Detail, Seed: seed, RunIndex: i, Tier: tier,
						Tape: min, Trace: rr.Trace, TraceHash: fmt.Sprintf("%016x", rr.TraceHash), Faults: rr.Faults,
						OrigTape: res.Tape, OrigTraceHash: fmt.Sprintf("%016x", res.TraceHash), HistoryFrom: &hf}
					os.MkdirAll(replayDir, 0o755)
					path := filepath.Join(replayDir, fmt.Sprintf("%s-%d-%d.json", h.ID, seed, i))
					js, _ := json.MarshalIndent(rp, "", " ")
					os.WriteFile(path, js, 0o644)
					rec.Replay = path
				}
				wo.Violations = append(wo.Violations, rec)
			}
		}
		if time.Since(lastWrite) > 5*time.Second {
			wo.WallS = time.Since(start).Seconds()
			write()
			lastWrite = time.Now()
		}
	}
	for i := from; i < to; {
		if time.Since(start) > wall {
			break
		}
		end := min(i+4000, to)
		t.Run("runs", func(ct *testing.T) {
			tt = ct
			for ; i < end && time.Since(start) <= wall; i++ {
				oneRun(i)
			}
		})
		// Goroutines that a run leaves blocked for good (a wedged component: that is what some runs are about)
		// can never be reclaimed, nor can what they hold. A worker that has grown beyond its allowance hands
		// the rest of its range back to the driver, which continues in a fresh process.
		var ms runtime.MemStats
		runtime.ReadMemStats(&ms)
		if ms.Sys > memLimit && i < to {
			wo.Truncated = true
			break
		}
	}
	if mp := os.Getenv("VERIF_MEMPROFILE"); mp != "" {
		// development aid: where does a long-running worker keep its memory?
		runtime.GC()
		if f, err := os.Create(mp); err == nil {
			pprof.Lookup("heap").WriteTo(f, 0)
			f.Close()
		}
		fmt.Fprintf(os.Stderr, "goroutines at end: %d\n", runtime.NumGoroutine())
	}
	wo.Distinct = len(hashes)
	wo.SiteHits = simrt.SiteHits()
	if out != "" {
		hs := make([]uint64, 0, len(hashes))
		for k := range hashes {
			hs = append(hs, k)
		}
		sort.Slice(hs, func(i, j int) bool { return hs[i] < hs[j] })
		buf := make([]byte, 8*len(hs))
		for i, k := range hs {
			binary.LittleEndian.PutUint64(buf[8*i:], k)
		}
		wo.HashFile = out + ".hashes"
		os.WriteFile(wo.HashFile, buf, 0o644)
	}
	wo.WallS = time.Since(start).Seconds()
	wo.Complete = true
	write()
}
