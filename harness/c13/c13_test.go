// C13 — lock primitives: mutual exclusion, FIFO grant, clean cancellation, no leaked per-key state.
package c13

import (
	"context"
	"errors"
	"fmt"
	"testing"
	"time"

	"github.com/dapr/kit/concurrency/cmap"
	"github.com/dapr/kit/concurrency/fifo"
	"github.com/dapr/kit/concurrency/lock"

	"verif/harness/common"
	"verif/simrt"
)

// set by the cmap.Mutex / outer-cancel harness of the current run: qualifies signatures so that
// the known findings (see known_findings.json) are told apart from any other violation
var qualifier string

// monitor is the per-lock/per-key occupancy monitor updated inside critical sections.
type monitor struct {
	writers, readers int
}

func (m *monitor) enter(s *simrt.Sim, what string, write bool) {
	if write {
		if m.writers > 0 || m.readers > 0 {
			s.Fail("two-holders", fmt.Sprintf("%s: exclusive holder admitted while %d writer(s) and %d reader(s) hold it", what, m.writers, m.readers))
		}
		m.writers++
	} else {
		if m.writers > 0 {
			s.Fail("reader-with-writer", fmt.Sprintf("%s: reader admitted while a writer holds it", what))
		}
		m.readers++
	}
}

func (m *monitor) leave(write bool) {
	if write {
		m.writers--
	} else {
		m.readers--
	}
}

func critical(s *simrt.Sim) {
	for i, n := 0, s.Choose(3, "cs"); i < n; i++ {
		s.Yield("critical")
	}
}

type grant struct {
	arrival, granted uint64
	who              string
}

func checkFIFO(s *simrt.Sim, what string, gs []grant) {
	for i := range gs {
		for j := range gs {
			if gs[i].arrival < gs[j].arrival && gs[i].granted > gs[j].granted {
				s.Fail("not-fifo", fmt.Sprintf("%s: %s arrived (stamp %d) before %s (stamp %d) but was granted after it", what, gs[i].who, gs[i].arrival, gs[j].who, gs[j].arrival))
			}
		}
	}
}

// ---------------------------------------------------------------- fifo.Mutex

func fifoMutex(s *simrt.Sim) {
	m := fifo.New()
	var mon monitor
	var grants []grant
	n := 2 + s.Choose(5, "clients")
	var names []string
	for c := 0; c < n; c++ {
		name := fmt.Sprintf("c%d", c)
		names = append(names, name)
		reps := 1 + s.Choose(3, "reps")
		s.Go(name, func() {
			for r := 0; r < reps; r++ {
				m.Lock()
				grants = append(grants, grant{s.LastOpStamp(), s.Stamp(), name})
				mon.enter(s, "fifo.Mutex", true)
				critical(s)
				mon.leave(true)
				m.Unlock()
				s.Yield("after")
			}
		})
	}
	if !s.Join(time.Hour, names...) {
		s.Fail("hang", "fifo.Mutex clients did not finish\n"+s.Dump())
		return
	}
	checkFIFO(s, "fifo.Mutex", grants)
}

// ---------------------------------------------------------------- fifo.Map

func fifoMap(s *simrt.Sim) {
	m := fifo.NewMap[string]()
	keys := []string{"a", "b", "c"}[:1+s.Choose(3, "keys")]
	mons := map[string]*monitor{}
	grants := map[string][]grant{}
	for _, k := range keys {
		mons[k] = &monitor{}
	}
	n := 2 + s.Choose(5, "clients")
	var names []string
	active := 0
	for c := 0; c < n; c++ {
		name := fmt.Sprintf("c%d", c)
		names = append(names, name)
		reps := 1 + s.Choose(3, "reps")
		var ks []string
		for r := 0; r < reps; r++ {
			ks = append(ks, keys[s.Choose(len(keys), "key")])
		}
		s.Go(name, func() {
			for _, k := range ks {
				active++
				m.Lock(k)
				grants[k] = append(grants[k], grant{s.LastOpStamp(), s.Stamp(), name})
				mons[k].enter(s, "fifo.Map key "+k, true)
				critical(s)
				mons[k].leave(true)
				m.Unlock(k)
				active--
				if active == 0 {
					if l := fifo.VerifMapLen(m); l != 0 {
						s.Fail("leaked-entry", fmt.Sprintf("fifo.Map holds %d per-key entries although no holder or waiter exists", l))
					}
				}
				s.Yield("after")
			}
		})
	}
	if !s.Join(time.Hour, names...) {
		s.Fail("hang", "fifo.Map clients did not finish\n"+s.Dump())
		return
	}
	for _, k := range keys {
		checkFIFO(s, "fifo.Map key "+k, grants[k])
	}
	if l := fifo.VerifMapLen(m); l != 0 {
		s.Fail("leaked-entry", fmt.Sprintf("fifo.Map holds %d per-key entries after every holder and waiter left", l))
	}
}

// ---------------------------------------------------------------- cmap.Mutex

func cmapMutex(s *simrt.Sim) {
	qualifier = "cmap.Mutex"
	m := cmap.NewMutex[string]()
	keys := []string{"a", "b", "c"}[:1+s.Choose(3, "keys")]
	mons := map[string]*monitor{}
	// per key: how many clients are inside Lock/RLock (waiting) or hold it
	waiting := map[string]int{}
	holding := map[string]int{}
	tainted := map[string]bool{} // a delete-and-release happened while others waited on / co-held the key
	deleting := map[string]int{}
	taint := func(k string) {
		tainted[k] = true
		qualifier = "cmap.Mutex:after-delete-release-with-waiters"
		s.Fault("cmap.delete-release-with-others")
	}
	for _, k := range keys {
		mons[k] = &monitor{}
	}
	useDelete := s.Choose(2, "useDelete") == 0
	n := 2 + s.Choose(4, "clients")
	var names []string
	type step struct {
		key   string
		write bool
		del   bool
	}
	for c := 0; c < n; c++ {
		name := fmt.Sprintf("c%d", c)
		names = append(names, name)
		var steps []step
		for r, reps := 0, 1+s.Choose(3, "reps"); r < reps; r++ {
			steps = append(steps, step{keys[s.Choose(len(keys), "key")], s.Choose(2, "write") == 0, useDelete && s.Choose(3, "del") == 0})
		}
		s.Go(name, func() {
			for _, st := range steps {
				k := st.key
				waiting[k]++
				if deleting[k] > 0 {
					taint(k)
				}
				_ = holding
				if st.write {
					m.Lock(k)
				} else {
					m.RLock(k)
				}
				waiting[k]--
				holding[k]++
				if tainted[k] {
					s.Logf("acquire on tainted key %s", k)
				}
				mons[k].enter(s, fmt.Sprintf("cmap.Mutex key %s (tainted=%v)", k, tainted[k]), st.write)
				critical(s)
				mons[k].leave(st.write)
				if st.del {
					deleting[k]++
					if waiting[k] > 0 || holding[k] > 1 {
						taint(k)
					}
				}
				switch {
				case st.write && st.del:
					m.DeleteUnlock(k)
				case st.write:
					m.Unlock(k)
				case st.del:
					m.DeleteRUnlock(k)
				default:
					m.RUnlock(k)
				}
				holding[k]--
				if st.del {
					deleting[k]--
				}
				s.Yield("after")
			}
		})
	}
	if !s.Join(time.Hour, names...) {
		t := false
		for _, v := range tainted {
			t = t || v
		}
		s.Fail("hang", fmt.Sprintf("cmap.Mutex clients did not finish (tainted=%v)\n%s", t, s.Dump()))
		return
	}
}

// ---------------------------------------------------------------- lock.Context

func lockContext(s *simrt.Sim) {
	l := lock.NewContext()
	var mon monitor
	n := 2 + s.Choose(4, "clients")
	longHolder := s.Choose(3, "long") == 0
	var release bool
	var names []string
	type cl struct {
		ctx    context.Context
		cancel context.CancelFunc
	}
	var cls []cl
	for c := 0; c < n; c++ {
		ctx, cancel := context.WithCancel(context.Background())
		if s.Choose(5, "precancel") == 0 {
			cancel()
		}
		cls = append(cls, cl{ctx, cancel})
	}
	for c := 0; c < n; c++ {
		name := fmt.Sprintf("c%d", c)
		names = append(names, name)
		c := c
		write := s.Choose(2, "write") == 0
		reps := 1 + s.Choose(2, "reps")
		s.Go(name, func() {
			for r := 0; r < reps; r++ {
				var err error
				if write {
					err = l.Lock(cls[c].ctx)
				} else {
					err = l.RLock(cls[c].ctx)
				}
				if err != nil {
					if cls[c].ctx.Err() == nil {
						s.Fail("spurious-error", fmt.Sprintf("acquisition failed with %v although its context is live", err))
					}
					s.Logf("%s: error", name)
					continue
				}
				mon.enter(s, "lock.Context", write)
				critical(s)
				if longHolder && c == 0 && r == 0 {
					s.WaitUntil("hold", 0, func() bool { return release })
				}
				mon.leave(write)
				if write {
					l.Unlock()
				} else {
					l.RUnlock()
				}
				s.Yield("after")
			}
		})
	}
	s.Go("canceller", func() {
		for c := 0; c < n; c++ {
			if longHolder || s.Choose(3, "cancel?") == 0 {
				s.Yield("cancel")
				if c == 0 && longHolder {
					continue
				}
				cls[c].cancel()
				s.Fault("ctx.cancel")
			}
		}
	})
	if longHolder {
		// every other client's context is cancelled: all of them must stop waiting while c0 still holds
		if !s.Join(time.Hour, append(names[1:], "canceller")...) {
			s.Fail("waiter-stuck", "a waiter whose context ended is still waiting while the lock is held\n"+s.Dump())
			return
		}
		release = true
	}
	if !s.Join(time.Hour, append(names, "canceller")...) {
		s.Fail("hang", "lock.Context clients did not finish\n"+s.Dump())
		return
	}
	// an acquisition that reported an error holds nothing: a fresh acquirer succeeds
	s.Go("final", func() {
		if err := l.Lock(context.Background()); err != nil {
			s.Fail("final-lock", err.Error())
			return
		}
		mon.enter(s, "lock.Context", true)
		mon.leave(true)
		l.Unlock()
	})
	if !s.Join(time.Hour, "final") {
		s.Fail("leaked-hold", "after every client released or failed, a new Lock never succeeds\n"+s.Dump())
	}
}

// ---------------------------------------------------------------- lock.OuterCancel

var errOuter = errors.New("outer-cancel")

func outerCancel(s *simrt.Sim) {
	grace := []time.Duration{5 * time.Millisecond, 20 * time.Millisecond}[s.Choose(2, "grace")]
	o := lock.NewOuterCancel(errOuter, grace)
	runCtx, stopRun := context.WithCancel(context.Background())
	var shutdownInv uint64
	s.Go("run", func() { o.Run(runCtx) })

	type reader struct {
		id                int
		parent            context.Context
		pcancel           context.CancelFunc
		parentCancelled   uint64
		rctx              context.Context
		granted, released uint64
		errored           bool
		hold              time.Duration
		doneSeenAt        time.Time
		doneSeen          bool
	}
	type writer struct {
		id                     int
		inv, granted, unlocked uint64
		invTime                time.Time
		hold                   time.Duration
	}
	holds := []time.Duration{0, time.Millisecond, 3 * time.Millisecond, 10 * time.Millisecond, 50 * time.Millisecond}
	var readers []*reader
	var writers []*writer
	var names []string
	writersHolding := 0
	nr := 1 + s.Choose(4, "readers")
	nw := s.Choose(3, "writers")
	shutdown := s.Choose(4, "shutdown") == 0
	for i := 0; i < nr; i++ {
		r := &reader{id: i, hold: holds[s.Choose(len(holds), "rhold")]}
		r.parent, r.pcancel = context.WithCancel(context.Background())
		cancelParent := s.Choose(5, "pcancel") == 0
		startAt := holds[s.Choose(len(holds), "rstart")]
		readers = append(readers, r)
		name := fmt.Sprintf("r%d", i)
		names = append(names, name)
		s.Go(name, func() {
			s.Sleep(startAt)
			rctx, cancel, err := o.RLock(r.parent)
			if err != nil {
				r.errored = true
				s.Logf("%s: %v", name, err)
				return
			}
			r.rctx = rctx
			r.granted = s.Stamp()
			if writersHolding > 0 && rctx.Err() == nil && shutdownInv == 0 {
				s.Fail("reader-during-writer", fmt.Sprintf("reader %d was admitted with a live context while a writer holds the lock", r.id))
			}
			// hold until the hold time passes or the context is cancelled
			tm := time.NewTimer(r.hold)
			s.Block("rhold", func() {
				select {
				case <-rctx.Done():
					r.doneSeen = true
					r.doneSeenAt = time.Now()
				case <-tm.C:
				}
			})
			tm.Stop()
			if r.doneSeen {
				cause := context.Cause(rctx)
				writerAsked := false
				graceOK := false
				for _, w := range writers {
					// (a writer that had been granted before this reader was admitted has unlocked since — readers
					// are not admitted while a writer waits or holds — and is no reason to cancel this reader)
					if w.inv != 0 && !(w.granted != 0 && w.granted < r.granted) {
						writerAsked = true
						if !r.doneSeenAt.Before(w.invTime.Add(grace)) {
							graceOK = true
						}
					}
				}
				switch {
				case r.parentCancelled != 0 || shutdownInv != 0:
				case !writerAsked:
					s.Fail("spurious-cancel", fmt.Sprintf("reader %d was cancelled (cause %v) although it did not release, its parent is live, no writer asked and no shutdown", r.id, cause))
				case !errors.Is(cause, errOuter):
					s.Fail("wrong-cause", fmt.Sprintf("reader %d cancelled by a writer with cause %v, configured cause is %v", r.id, cause, errOuter))
				case !graceOK:
					s.Fail("cancel-before-grace", fmt.Sprintf("reader %d was cancelled before the %v grace period since any writer asked had elapsed", r.id, grace))
				}
			}
			r.released = s.Stamp()
			cancel()
			s.Yield("r.released")
		})
		if cancelParent {
			pn := fmt.Sprintf("pc%d", i)
			names = append(names, pn)
			s.Go(pn, func() {
				s.Sleep(holds[s.Choose(len(holds), "pcAt")])
				r.parentCancelled = s.Stamp()
				r.pcancel()
				s.Fault("parent.cancel")
			})
		}
	}
	for i := 0; i < nw; i++ {
		w := &writer{id: i, hold: holds[s.Choose(len(holds), "whold")]}
		startAt := holds[s.Choose(len(holds), "wstart")]
		writers = append(writers, w)
		name := fmt.Sprintf("w%d", i)
		names = append(names, name)
		s.Go(name, func() {
			s.Sleep(startAt)
			w.inv, w.invTime = s.Stamp(), time.Now()
			unlock := o.Lock()
			w.granted = s.Stamp()
			if writersHolding > 0 {
				if shutdownInv != 0 {
					s.Fail("two-writers-across-shutdown", "two outer-cancel writers hold the lock at once (one was granted after Run's context was cancelled)")
				} else {
					s.Fail("two-writers", "two outer-cancel writers hold the lock at once")
				}
			}
			writersHolding++
			if shutdownInv == 0 {
				for _, r := range readers {
					if r.granted != 0 && r.released == 0 && r.rctx.Err() == nil {
						s.Fail("writer-with-live-reader", fmt.Sprintf("writer %d was granted while reader %d holds the lock with a live, uncancelled context", w.id, r.id))
					}
				}
			}
			s.Sleep(w.hold)
			writersHolding--
			w.unlocked = s.Stamp()
			unlock()
			s.Yield("w.unlocked")
		})
	}
	if shutdown {
		names = append(names, "shutdown")
		s.Go("shutdown", func() {
			s.Sleep(holds[s.Choose(len(holds), "sdAt")])
			shutdownInv = s.Stamp()
			stopRun()
			s.Fault("shutdown")
		})
	}
	if !s.Join(time.Hour, names...) {
		s.Fail("hang", "outer-cancel clients did not finish\n"+s.Dump())
		return
	}
	if shutdownInv == 0 {
		// everybody has released (or was refused): nothing is held, so a writer is granted without having to
		// wait out the grace period for some reader — an RLock that reported an error must not have left a hold behind
		t0 := time.Now()
		var grantedAt time.Time
		s.Go("probe", func() {
			unlock := o.Lock()
			grantedAt = time.Now()
			unlock()
		})
		if !s.Join(time.Hour, "probe") {
			s.Fail("hang", "a writer arriving after every client had finished was never granted\n"+s.Dump())
			return
		}
		if d := grantedAt.Sub(t0); d >= grace {
			nerr := 0
			for _, r := range readers {
				if r.errored {
					nerr++
				}
			}
			s.Fail("leaked-hold", fmt.Sprintf("outer-cancel: every reader and writer had released, yet a new writer waited %v (the grace period is %v): a read hold is still registered (%d RLock calls had reported an error)", d, grace, nerr))
		}
		shutdownInv = s.Stamp()
		stopRun()
	}
	// (whether Run itself returns is not part of the property: not checked)
}

// outerCancelWaiters: a writer holds the outer-cancel lock for as long as the harness says; readers ask with
// contexts that are then cancelled (some queue up behind another waiter, reader or writer, that the Run loop is
// busy with). A waiter whose context ends stops waiting - while the writer still holds - and leaves no hold behind.
func outerCancelWaiters(s *simrt.Sim) {
	grace := 5 * time.Millisecond
	o := lock.NewOuterCancel(errOuter, grace)
	runCtx, stopRun := context.WithCancel(context.Background())
	defer stopRun()
	s.Go("run", func() { o.Run(runCtx) })
	var held, release bool
	s.Go("w0", func() {
		unlock := o.Lock()
		held = true
		s.WaitUntil("hold", 0, func() bool { return release })
		unlock()
	})
	if !s.WaitUntil("w0held", time.Hour, func() bool { return held }) {
		s.Fail("hang", "the first writer was never granted\n"+s.Dump())
		return
	}
	// the waiters are released either by ending their contexts or (one time in three) by shutdown: Run's context is
	// cancelled while they wait, queued or being served, and they come back with an error
	viaShutdown := s.Choose(3, "viaShutdown") == 0
	// optionally a second writer, which parks the Run loop until w0 unlocks
	w1 := !viaShutdown && s.Choose(3, "secondwriter") == 0
	if w1 {
		s.Go("w1", func() {
			s.Sleep(time.Duration(s.Choose(3, "w1start")) * time.Millisecond)
			unlock := o.Lock()
			if !release {
				s.Fail("two-writers", "two outer-cancel writers hold the lock at once")
			}
			unlock()
		})
	}
	n := 1 + s.Choose(3, "readers")
	var names []string
	var cancels []context.CancelFunc
	admitted := 0
	for i := 0; i < n; i++ {
		ctx, cancel := context.WithCancel(context.Background())
		cancels = append(cancels, cancel)
		name := fmt.Sprintf("r%d", i)
		names = append(names, name)
		startAt := time.Duration(s.Choose(4, "rstart")) * time.Millisecond
		s.Go(name, func() {
			s.Sleep(startAt)
			rctx, rcancel, err := o.RLock(ctx)
			if err != nil {
				s.Logf("%s: %v", name, err)
				return
			}
			if !release && rctx.Err() == nil {
				s.Fail("reader-during-writer", "a reader was admitted with a live context while a writer holds the lock")
			}
			admitted++
			rcancel()
		})
	}
	names = append(names, "canceller")
	s.Go("canceller", func() {
		s.Sleep(time.Duration(s.Choose(6, "cancelAt")) * time.Millisecond)
		if viaShutdown {
			stopRun()
			s.Fault("shutdown")
			return
		}
		for _, c := range cancels {
			c()
			s.Fault("ctx.cancel")
			s.Yield("cancel")
		}
	})
	if !s.Join(time.Hour, names...) {
		qualifier = "outercancel"
		if viaShutdown {
			s.Fail("waiter-stuck", "lock.OuterCancel: Run's context was cancelled, yet a reader is still waiting in RLock while a writer holds the lock\n"+s.Dump())
			return
		}
		s.Fail("waiter-stuck", "lock.OuterCancel: a reader whose context ended is still waiting in RLock while a writer holds the lock\n"+s.Dump())
		return
	}
	s.Probe("outercancel.waiters-left")
	release = true
	ws := []string{"w0"}
	if w1 {
		ws = append(ws, "w1")
	}
	if !s.Join(time.Hour, ws...) {
		s.Fail("hang", "outer-cancel writers did not finish\n"+s.Dump())
		return
	}
	if viaShutdown {
		return // (after shutdown Lock() takes the shutdown path: nothing to learn from a probe)
	}
	// nothing is held: a new writer does not have to wait out a grace period for a reader that gave up
	s.Sleep(time.Millisecond)
	t0 := time.Now()
	var grantedAt time.Time
	s.Go("probe", func() {
		unlock := o.Lock()
		grantedAt = time.Now()
		unlock()
	})
	if !s.Join(time.Hour, "probe") {
		s.Fail("hang", "a writer arriving after every client had finished was never granted\n"+s.Dump())
		return
	}
	if d := grantedAt.Sub(t0); d >= grace {
		s.Fail("leaked-hold", fmt.Sprintf("outer-cancel: every reader had given up or released (%d admitted), yet a new writer waited %v (the grace period is %v): a read hold is still registered", admitted, d, grace))
	}
}

func body(s *simrt.Sim, tier string) {
	qualifier = ""
	switch s.Choose(6, "primitive") {
	case 5:
		outerCancelWaiters(s)
	case 0:
		fifoMutex(s)
	case 1:
		fifoMap(s)
	case 2:
		cmapMutex(s)
	case 3:
		lockContext(s)
	case 4:
		outerCancel(s)
	}
}

func TestWorker(t *testing.T) {
	common.Main(t, common.Harness{
		ID:           "C13",
		DelayPalette: []time.Duration{500 * time.Microsecond, 2 * time.Millisecond},
		MaxDelay:     4 * time.Millisecond,
		Body:         body,
		Signature: func(v *simrt.Violation) string {
			if qualifier != "" {
				return qualifier + ":" + v.Oracle
			}
			return v.Oracle
		},
	})
}
