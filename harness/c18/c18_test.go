// C18 — dir.Write: target always one complete file set; crashes never block later writes.
package c18

import (
	"errors"
	"fmt"
	"os"
	"path/filepath"
	"sort"
	"strings"
	"syscall"
	"testing"
	"time"

	"github.com/dapr/kit/concurrency/dir"

	"verif/harness/common"
	"verif/harness/spiffebody"
	"verif/harness/stublog"
	"verif/simos"
	"verif/simrt"
)

var fileSets = []map[string][]byte{
	{},
	{"a": []byte("1")},
	{"a": []byte("22"), "b": []byte("333")},
	{"b": []byte("4"), "c": []byte("55555")},
	{"a": []byte("6"), "b": []byte("7"), "c": []byte("8"), "d": []byte("9")},
	{"a": {}, "e": []byte("x")}, // a file may be empty: it is still part of the set
	{"e": nil},
}

func render(m map[string][]byte) string {
	ks := make([]string, 0, len(m))
	for k := range m {
		ks = append(ks, k)
	}
	sort.Strings(ks)
	var b strings.Builder
	for _, k := range ks {
		fmt.Fprintf(&b, "%s=%s;", k, m[k])
	}
	return b.String()
}

// hook numbers every filesystem step of the current Write and injects at most one fault.
type hook struct {
	s         *simrt.Sim
	step      int
	faultStep int    // -1 none
	faultKind int    // 0 crash before, 1 crash after, 2 error, 3 torn write (WriteFile only; else crash before)
	fired     string // what was injected
	check     func(where string)
	renamed   func()
}

func (h *hook) Before(op string, args ...string) error {
	h.step++
	if h.step != h.faultStep {
		return nil
	}
	switch h.faultKind {
	case 0:
		h.fired = fmt.Sprintf("crash before step %d (%s)", h.step, op)
		h.s.Fault("fs.crash-before")
		panic(simos.Crash{At: h.fired})
	case 2:
		h.fired = fmt.Sprintf("error at step %d (%s)", h.step, op)
		h.s.Fault("fs.error")
		if h.s.Choose(2, "errno") == 0 {
			return syscall.ENOSPC
		}
		return syscall.EIO
	case 3:
		if op == "WriteFile" {
			h.fired = fmt.Sprintf("torn write at step %d", h.step)
			h.s.Fault("fs.torn-write")
			return simos.TornWrite{N: 1}
		}
		h.fired = fmt.Sprintf("crash before step %d (%s)", h.step, op)
		h.s.Fault("fs.crash-before")
		panic(simos.Crash{At: h.fired})
	}
	return nil
}

func (h *hook) After(op string, err error) {
	if op == "Rename" && err == nil {
		h.renamed()
	}
	h.check(fmt.Sprintf("after step %d (%s)", h.step, op))
	if h.step == h.faultStep && h.faultKind == 1 {
		h.fired = fmt.Sprintf("crash after step %d (%s)", h.step, op)
		h.s.Fault("fs.crash-after")
		if op == "Symlink" {
			h.s.Probe("crash-between-symlink-and-rename")
		}
		panic(simos.Crash{At: h.fired})
	}
}

var runSeq int

func body(s *simrt.Sim, tier string) {
	scratch := os.Getenv("VERIF_SCRATCH")
	if scratch == "" {
		scratch = filepath.Join(os.TempDir(), "verif-c18")
	}
	runSeq++
	root := filepath.Join(scratch, fmt.Sprintf("r%d", runSeq))
	os.RemoveAll(root)
	if err := os.MkdirAll(root, 0o755); err != nil {
		s.Fail("infra-scratch", err.Error())
		return
	}
	defer os.RemoveAll(root)
	defer simos.SetHook(nil)
	target := filepath.Join(root, "base", "tgt")
	// how the caller names the target: absolute, with a trailing separator, or relative to the working directory
	given := target
	switch s.Choose(8, "targetstyle") {
	case 0:
		given = target + string(filepath.Separator)
	case 1:
		given = filepath.Join("base", "tgt")
	case 2:
		given = "." + string(filepath.Separator) + filepath.Join("base", "tgt")
	case 3:
		given = filepath.Join(root, "base", "..", "base", "tgt")
	}
	if !filepath.IsAbs(given) {
		if err := os.Chdir(root); err != nil {
			s.Fail("infra-scratch", err.Error())
			return
		}
		defer os.Chdir(scratch)
	}

	nwrites := 1 + s.Choose(4, "nwrites")
	var sets []int
	for i := 0; i < nwrites; i++ {
		sets = append(sets, s.Choose(len(fileSets), "set"))
	}
	faultWrite := -1
	if s.Choose(5, "fault?") != 0 {
		faultWrite = s.Choose(nwrites, "faultWrite")
	}
	faultStep := 1 + s.Choose(12, "faultStep")
	faultKind := s.Choose(4, "faultKind")
	secondFault := s.Choose(4, "second") == 0 // a second fault in the first recovery write

	current := -1 // index into sets of the write whose Rename succeeded last
	anyFault, anyCrash, freshInstance := false, false, false
	var published []string // version directories the target has pointed to, in order
	var log []string
	check := func(where string) {
		fi, err := os.Lstat(target)
		if err != nil {
			if current >= 0 {
				s.Fail("target-vanished", fmt.Sprintf("%s: target does not exist although a Write had been published\n%s", where, strings.Join(log, "\n")))
			}
			return
		}
		if fi.Mode()&os.ModeSymlink == 0 {
			s.Fail("target-not-symlink", where+": target is not a symbolic link")
			return
		}
		ents, err := os.ReadDir(target)
		if err != nil {
			s.Fail("target-dangling", fmt.Sprintf("%s: target does not resolve to a directory: %s", where, strings.ReplaceAll(err.Error(), root, "<root>")))
			return
		}
		got := map[string][]byte{}
		for _, e := range ents {
			b, _ := os.ReadFile(filepath.Join(target, e.Name()))
			got[e.Name()] = b
		}
		if current < 0 {
			s.Fail("target-unexpected", where+": target exists before any Write published it")
			return
		}
		if render(got) != render(fileSets[sets[current]]) {
			s.Fail("target-partial-or-mixed", fmt.Sprintf("%s: target holds {%s}, the last published Write had {%s}\n%s", where, render(got), render(fileSets[sets[current]]), strings.Join(log, "\n")))
		}
	}
	d := dir.New(dir.Options{Log: stublog.Log{}, Target: given})
	faultsLeft := 0
	if faultWrite >= 0 {
		faultsLeft = 1
		if secondFault {
			faultsLeft = 2
		}
	}
	for i := 0; i < nwrites; i++ {
		// usually the clock moves between two Writes; one time in eight it does not, and the second Write reads the very
		// nanosecond the first one named its version directory after: it may then refuse (an error, nothing changed),
		// it must not touch the live version
		sameNano := false
		if g := s.Choose(8, "gap"); g == 0 && i > 0 {
			sameNano = true
			s.Probe("same-nanosecond-write")
		} else {
			s.Sleep(time.Duration(1+g%3) * time.Nanosecond)
		}
		pending := i
		h := &hook{s: s, faultStep: -1, check: check, renamed: func() {
			current = pending
			if p, err := os.Readlink(target); err == nil {
				if !filepath.IsAbs(p) {
					p = filepath.Join(filepath.Dir(target), p)
				}
				published = append(published, p)
			}
		}}
		if faultsLeft > 0 && i >= faultWrite {
			h.faultStep, h.faultKind = faultStep, faultKind
			if i > faultWrite {
				h.faultStep, h.faultKind = 1+s.Choose(12, "faultStep2"), s.Choose(4, "faultKind2")
			}
		}
		existed := map[string]bool{}
		if ents, e := os.ReadDir(filepath.Join(root, "base")); e == nil {
			for _, e := range ents {
				existed[e.Name()] = true
			}
		}
		simos.SetHook(h)
		var err error
		crashed := false
		func() {
			defer func() {
				if r := recover(); r != nil {
					if _, ok := r.(simos.Crash); ok {
						crashed = true
						return
					}
					panic(r)
				}
			}()
			err = d.Write(fileSets[sets[i]])
		}()
		simos.SetHook(nil)
		errText := "<nil>"
		if err != nil {
			errText = strings.ReplaceAll(err.Error(), root, "<root>") // scratch paths differ between worker and replay
		}
		log = append(log, fmt.Sprintf("[target given as %q] Write #%d {%s}: fault=%q crashed=%v err=%s", strings.ReplaceAll(given, root, "<root>"), i, render(fileSets[sets[i]]), h.fired, crashed, errText))
		s.Logf("%s", log[len(log)-1])
		check(fmt.Sprintf("after Write #%d", i))
		if h.fired != "" && !crashed && err != nil && current != pending && !anyCrash && !freshInstance && !strings.Contains(h.fired, "(Remove") {
			// a Write that failed and said so (no crash, nothing published): what it had begun - a version directory with
			// some of the new files in it - is not the current version and must not stay behind
			live, _ := os.Readlink(target)
			ents, _ := os.ReadDir(filepath.Join(root, "base"))
			for _, e := range ents {
				if e.IsDir() && e.Name() != filepath.Base(live) && !existed[e.Name()] {
					s.Fail("failed-write-left-version-dir", fmt.Sprintf("Write #%d returned an error (%s) and left its unpublished version directory %s behind\n%s", i, errText, e.Name(), strings.Join(log, "\n")))
				}
			}
		}
		if h.fired != "" {
			anyFault = true
			faultsLeft--
			if crashed {
				// what a crash leaves on disk (unpublished or superseded version directories) is not judged. An error that
				// struck after this Write had published its version - in the clean-up of the old one - is no crash: if the
				// caller carries on with the same Dir, the versions it has superseded are gone after its next successful Write
				anyCrash = true
			}
			// after a crash only the disk survives; after a mere error return the caller may equally
			// well carry on with the same Dir (decided by the tape)
			if crashed || s.Choose(2, "freshAfterError") == 0 {
				d = dir.New(dir.Options{Log: stublog.Log{}, Target: given})
				freshInstance = true
			}
			continue
		}
		if h.faultStep > 0 && h.fired == "" {
			faultsLeft-- // the chosen step does not exist in this Write: no fault
		}
		if err != nil && sameNano && errors.Is(err, os.ErrExist) && current != pending {
			continue // refused: the version name was taken
		}
		if err != nil {
			s.Fail("write-failed", fmt.Sprintf("Write #%d returned an error although no fault was injected into it\n%s", i, strings.Join(log, "\n")))
			return
		}
		if current != i {
			s.Fail("write-not-published", fmt.Sprintf("Write #%d returned nil but the target does not show its file set", i))
			return
		}
		if !anyCrash && !freshInstance {
			// no crash so far and the same Dir all along (a Write may have returned an error): every version
			// that was once published and has been superseded is gone (directories of failed attempts, never
			// published, are not judged)
			for _, p := range published[:len(published)-1] {
				if _, err := os.Stat(p); err == nil && p != published[len(published)-1] {
					s.Fail("old-versions-remain", fmt.Sprintf("after Write #%d a superseded version directory is still there: %s\n%s", i, filepath.Base(p), strings.Join(log, "\n")))
				}
			}
		}
		if !anyFault {
			ents, _ := os.ReadDir(filepath.Join(root, "base"))
			if len(ents) != 2 {
				var names []string
				for _, e := range ents {
					names = append(names, e.Name())
				}
				s.Fail("old-versions-remain", fmt.Sprintf("after Write #%d without any crash the base directory holds %v, expected only the target link and the current version", i, names))
			}
		}
	}
	if anyFault {
		// recovery: a fresh Dir on the same target must be able to write
		s.Sleep(time.Nanosecond)
		d = dir.New(dir.Options{Log: stublog.Log{}, Target: given})
		pending := len(sets)
		sets = append(sets, s.Choose(len(fileSets), "recoverset"))
		h := &hook{s: s, faultStep: -1, check: check, renamed: func() { current = pending }}
		simos.SetHook(h)
		err := d.Write(fileSets[sets[pending]])
		simos.SetHook(nil)
		if err != nil {
			s.Fail("recovery-write-failed", fmt.Sprintf("after a crash / error a fresh Dir cannot Write: %s\n%s", strings.ReplaceAll(err.Error(), root, "<root>"), strings.Join(log, "\n")))
			return
		}
		check("after recovery Write")
		if current != pending {
			s.Fail("write-not-published", "recovery Write returned nil but the target does not show its file set")
		}
	}
}

func TestWorker(t *testing.T) {
	_ = errors.New
	common.Main(t, common.Harness{ID: "C18", NoDelays: true, SeedCrypto: true, Body: func(s *simrt.Sim, tier string) {
		// one run in eight drives dir.Write through its caller in the kit, crypto/spiffe (identity files
		// rotated by the SPIFFE loop, with injected disk errors): same oracles as C19, files always on
		if s.Choose(8, "via-spiffe") == 0 {
			spiffebody.Body(s, tier, spiffebody.Options{FilesAlways: true})
			return
		}
		body(s, tier)
	}})
}
