// C06 — queue.Processor: live items run exactly once, on time, in order; none stranded.
package c06

import (
	"fmt"
	"testing"
	"time"

	"github.com/dapr/kit/events/queue"
	clocktesting "k8s.io/utils/clock/testing"

	"verif/harness/common"
	"verif/simrt"
)

type item struct {
	id  int
	key string
	t   time.Time

	enqInvoke, enqReturn uint64
	enqBack              uint64 // stamp taken the moment Enqueue returned
	enqReturnTime        time.Time
	execs                int
	never                bool
	execStep             uint64
	execTime             time.Time
}

func (i *item) Key() string              { return i.key }
func (i *item) ScheduledTime() time.Time { return i.t }

type opKind int

const (
	opEnq opKind = iota
	opDeq
	opSleep
)

type op struct {
	kind opKind
	key  string
	off  time.Duration // enqueue: scheduled = now+off; sleep: duration
	it   *item
	// dequeue stamps
	invoke, ret uint64
	retTime     time.Time
	back        uint64 // stamp taken the moment the call returned (ret is taken one scheduling point later)
}

var offsets = []time.Duration{-time.Millisecond, 0, 300 * time.Microsecond, 500*time.Microsecond - 500*time.Nanosecond, 500 * time.Microsecond, 500*time.Microsecond + 500*time.Nanosecond, time.Millisecond, 2 * time.Millisecond, 3 * time.Millisecond, 5 * time.Millisecond, 8 * time.Millisecond}
var sleeps = []time.Duration{200 * time.Microsecond, 500 * time.Microsecond, time.Millisecond, 2 * time.Millisecond, 4 * time.Millisecond}

const maxDelay = 4 * time.Millisecond

// farFuture: items scheduled further ahead than a timer can be armed for (the largest Duration is ~292 years),
// on the stepped fake clock the processor accepts through WithClock. Simulated (bubble) time cannot pass the
// year 2262, so this part of the time axis is walked on the injected clock instead.
func farFuture(s *simrt.Sim) {
	s.DisableDelays()
	start := time.Date(2000, 1, 1, 0, 0, 0, 0, time.UTC)
	fc := clocktesting.NewFakeClock(start)
	var execs []string
	p := queue.NewProcessor[string, *item](func(it *item) {
		execs = append(execs, fmt.Sprintf("i%d at %s", it.id, fc.Now().Format(time.RFC3339)))
		if fc.Now().Before(it.t.Add(-500 * time.Microsecond)) {
			s.Fail("early", fmt.Sprintf("item i%d, scheduled for %s, executed at clock %s", it.id, it.t.Format(time.RFC3339), fc.Now().Format(time.RFC3339)))
		}
	}).WithClock(fc)
	far := &item{id: 0, key: "far", t: []time.Time{time.Date(9999, 12, 31, 23, 59, 59, 0, time.UTC), start.Add(1<<63 - 1).Add(time.Hour), start.Add(1<<63 - 1).Add(1 << 62)}[s.Choose(3, "howfar")]}
	near := &item{id: 1, key: "near", t: start.Add(time.Duration(1+s.Choose(400, "nearyears")) * 365 * 24 * time.Hour)}
	rest := func() bool {
		if !s.WaitUntil("rest", time.Minute, func() bool { return s.PredKitQuiescent() }) {
			s.Fail("hang", "the processor did not come to rest\n"+s.Dump())
			return false
		}
		return true
	}
	p.Enqueue(far)
	withNear := s.Choose(2, "withnear") == 0
	if withNear {
		p.Enqueue(near)
	}
	if !rest() {
		return
	}
	// walk the clock in steps no timer can outlast
	for y := 0; y < 450 && !s.Failed(); {
		step := []int{1, 40, 100, 146, 200, 292}[s.Choose(6, "stepyears")]
		y += step
		fc.Step(time.Duration(step) * 365 * 24 * time.Hour)
		if !rest() {
			return
		}
	}
	if withNear && near.t.Before(fc.Now()) && len(execs) == 0 {
		s.Fail("stranded-item", fmt.Sprintf("item i1, due %s, was not executed by clock %s", near.t.Format(time.RFC3339), fc.Now().Format(time.RFC3339)))
	}
	s.Probe("far-future.walked")
	p.Close()
	if !rest() {
		return
	}
	if l := s.Live(""); len(l) > 0 {
		s.Fail("loop-alive-after-close", fmt.Sprintf("processor goroutines alive after Close returned: %v", l))
	}
}

func body(s *simrt.Sim, tier string) {
	if s.Choose(40, "farfuture") == 0 {
		farFuture(s)
		return
	}
	t0 := time.Now()
	nclients := 2 + s.Choose(2, "clients")
	maxOps := 4
	if tier == "thorough" {
		maxOps = 6
	}
	closeRace := s.Choose(4, "closeRace") == 0
	var ops [][]*op
	var items []*item
	fresh := 0
	for c := 0; c < nclients; c++ {
		n := 1 + s.Choose(maxOps, "nops")
		var l []*op
		for j := 0; j < n; j++ {
			o := &op{}
			switch k := s.Choose(10, "op"); {
			case k < 5:
				o.kind = opEnq
				if s.Choose(4, "freshkey") == 0 {
					fresh++
					o.key = fmt.Sprintf("f%d", fresh)
				} else {
					o.key = fmt.Sprintf("k%d", s.Choose(3, "key"))
				}
				o.off = offsets[s.Choose(len(offsets), "off")]
				o.it = &item{id: len(items), key: o.key}
				if s.Choose(12, "never") == 0 {
					o.it.never = true // a "never" sentinel: scheduled at the end of time, it must simply stay behind everything else
				}
				items = append(items, o.it)
			case k < 8:
				o.kind = opDeq
				o.key = fmt.Sprintf("k%d", s.Choose(3, "key"))
			default:
				o.kind = opSleep
				o.off = sleeps[s.Choose(len(sleeps), "sleep")]
			}
			l = append(l, o)
		}
		ops = append(ops, l)
	}

	var closeInvoke, closeReturn uint64
	inCallback := 0
	type cbRec struct {
		it         *item
		start, end uint64
	}
	var cbs []*cbRec
	var cbTime time.Duration // total time spent inside callbacks (they delay the items behind them)
	p := queue.NewProcessor[string, *item](func(it *item) {
		it.execs++
		if it.execs == 1 {
			it.execStep = s.Stamp()
			it.execTime = time.Now()
		}
		s.Logf("exec i%d", it.id)
		if closeReturn != 0 {
			s.Fail("exec-after-close", fmt.Sprintf("item i%d executed at step %d after Close returned at step %d", it.id, s.Stamp(), closeReturn))
		}
		inCallback++
		cb := &cbRec{it: it, start: s.Stamp()}
		cbs = append(cbs, cb)
		s.Yield("callback")
		if s.Choose(4, "cb.slow") == 0 {
			s.Sleep(300 * time.Microsecond) // a callback that takes a while: Close must wait for it
			cbTime += 300 * time.Microsecond
		}
		cb.end = s.Stamp()
		inCallback--
	})
	// closeOnce is what every Close caller does: on return no callback may be running
	closeOnce := func(who string) {
		if closeInvoke == 0 {
			closeInvoke = s.Stamp() // the earliest Close invocation, whoever makes it
		}
		p.Close()
		if inCallback > 0 {
			s.Fail("close-returned-during-callback", fmt.Sprintf("Close (%s) returned while a callback is still running", who))
		}
		if closeReturn == 0 {
			closeReturn = s.Stamp()
		}
		s.Yield("close.ret")
	}

	var names []string
	for c := range ops {
		name := fmt.Sprintf("c%d", c)
		names = append(names, name)
		l := ops[c]
		s.Go(name, func() {
			for _, o := range l {
				switch o.kind {
				case opEnq:
					o.it.t = time.Now().Add(o.off)
					if o.it.never {
						o.it.t = time.Date(9999, 12, 31, 23, 59, 59, 0, time.UTC)
					}
					o.it.enqInvoke = s.Stamp()
					s.Logf("enq i%d %s +%v", o.it.id, o.key, o.off)
					p.Enqueue(o.it)
					o.it.enqBack = s.Stamp()
					s.Yield("enq.ret")
					o.it.enqReturn = s.Stamp()
					o.it.enqReturnTime = time.Now()
				case opDeq:
					o.invoke = s.Stamp()
					s.Logf("deq %s", o.key)
					p.Dequeue(o.key)
					o.back = s.Stamp()
					s.Yield("deq.ret")
					o.ret = s.Stamp()
					o.retTime = time.Now()
				case opSleep:
					s.Sleep(o.off)
				}
			}
		})
	}
	if closeRace {
		s.Go("closer", func() {
			s.Sleep(sleeps[s.Choose(len(sleeps), "closeAt")])
			s.Logf("close")
			closeOnce("closer")
		})
		names = append(names, "closer")
		if s.Choose(2, "closer2") == 0 {
			s.Go("closer2", func() {
				s.Sleep(sleeps[s.Choose(len(sleeps), "closeAt2")])
				closeOnce("closer2")
			})
			names = append(names, "closer2")
		}
	}
	if !s.Join(time.Hour, names...) {
		s.Fail("hang", "clients did not finish within 1h of simulated time (Enqueue/Dequeue/Close blocked)\n"+s.Dump())
		return
	}
	// settle: every scheduled time is at most ~40ms away
	s.Sleep(100 * time.Millisecond)
	settleStep := s.Step()

	// ---- oracles over the history
	type removal struct {
		invoke, ret uint64
		retTime     time.Time
		back        uint64
	}
	removals := map[string][]removal{}
	for _, l := range ops {
		for _, o := range l {
			if o.kind == opDeq {
				removals[o.key] = append(removals[o.key], removal{o.invoke, o.ret, o.retTime, o.back})
			}
			if o.kind == opEnq {
				removals[o.key] = append(removals[o.key], removal{o.it.enqInvoke, o.it.enqReturn, o.it.enqReturnTime, o.it.enqBack})
			}
		}
	}
	for _, x := range items {
		if x.enqReturn == 0 {
			continue
		}
		if x.execs > 1 {
			s.Fail("executed-twice", fmt.Sprintf("item i%d executed %d times", x.id, x.execs))
		}
		if x.execs >= 1 && x.execTime.Before(x.t.Add(-500*time.Microsecond)) {
			s.Fail("early", fmt.Sprintf("item i%d executed %v before its scheduled time", x.id, x.t.Sub(x.execTime)))
		}
		surelyRemoved, maybeRemoved := false, false
		var removedBy uint64
		for _, r := range removals[x.key] {
			if r.invoke == x.enqInvoke && r.ret == x.enqReturn {
				continue // itself
			}
			if closeRace && (closeInvoke == 0 || r.ret > closeInvoke) {
				// Dequeue/Enqueue racing or following Close are no-ops on a stopped processor
				maybeRemoved = true
				continue
			}
			if r.invoke > x.enqReturn {
				// invoked after x was certainly in the queue (or already executed)
				// ... and it returned before x became due: x was still queued, so it is gone for good
				if r.retTime.Before(x.t.Add(-500*time.Microsecond)) && (x.execs == 0 || r.ret < x.execStep) {
					surelyRemoved = true
					if removedBy == 0 || r.ret < removedBy {
						removedBy = r.ret
					}
				}
				// ... or it ran from start to end while the loop was inside the callback of another item, strictly
				// before x's scheduled time: the loop cannot have taken x for its "up to 0.5 ms early" execution
				// meanwhile, x was still queued, and an item dequeued or replaced before it became due is never run
				if r.retTime.Before(x.t) && r.back != 0 && (x.execs == 0 || r.back < x.execStep) {
					for _, c := range cbs {
						if c.it != x && c.start < r.invoke && c.end != 0 && r.back < c.end {
							surelyRemoved = true
							if removedBy == 0 || r.back < removedBy {
								removedBy = r.back
							}
						}
					}
				}
				maybeRemoved = true
			} else if r.ret > x.enqInvoke {
				maybeRemoved = true
			}
		}
		if closeRace {
			if x.enqReturn > closeInvoke && closeInvoke != 0 {
				maybeRemoved = true
			}
			if x.execs == 0 {
				maybeRemoved = true // Close may legitimately pre-empt it
			}
		}
		if x.execs >= 1 && surelyRemoved && removedBy != 0 && removedBy < x.execStep {
			s.Fail("executed-after-removal", fmt.Sprintf("item i%d (key %s) executed at step %d although a Dequeue/replacement of its key returned at step %d, before the item became due", x.id, x.key, x.execStep, removedBy))
		}
		if x.execs == 0 && !maybeRemoved && !x.never {
			s.Fail("stranded-item", fmt.Sprintf("item i%d (key %s, due %v before settle) was never executed although it was neither dequeued nor replaced; live loop goroutines: %v", x.id, x.key, time.Since(x.t), s.Live("")))
		}
		if x.execs >= 1 && !closeRace {
			due := x.t
			if x.enqReturnTime.After(due) {
				due = x.enqReturnTime
			}
			if late := x.execTime.Sub(due); late > maxDelay+cbTime+time.Microsecond {
				s.Fail("late", fmt.Sprintf("item i%d executed %v after it was due (only %v of delay was injected at most, callbacks took %v)", x.id, late, maxDelay, cbTime))
			}
		}
	}
	// order
	for _, a := range items {
		for _, b := range items {
			if a.execs == 0 || b.execs == 0 || a == b {
				continue
			}
			if a.execStep < b.execStep && a.t.Sub(b.t) >= time.Millisecond && !b.enqReturnTime.After(b.t) && b.enqReturn != 0 && b.enqReturn < a.execStep {
				s.Fail("order", fmt.Sprintf("item i%d (T=%v) ran before i%d (T=%v) which was queued in time", a.id, a.t.Sub(t0), b.id, b.t.Sub(t0)))
			}
		}
	}
	_ = settleStep
	if s.Failed() {
		return
	}
	if !closeRace {
		s.Go("closer", func() { closeOnce("closer") })
		s.Go("closer2", func() { closeOnce("closer2") })
		if !s.Join(time.Hour, "closer", "closer2") {
			s.Fail("close-hang", "Close did not return\n"+s.Dump())
			return
		}
	}
	s.Sleep(50 * time.Millisecond)
	if l := s.Live(""); len(l) > 0 {
		s.Fail("loop-alive-after-close", fmt.Sprintf("processor goroutines alive after Close returned: %v", l))
	}
}

func TestWorker(t *testing.T) {
	common.Main(t, common.Harness{
		ID:           "C06",
		DelayPalette: []time.Duration{100 * time.Microsecond, 400 * time.Microsecond, time.Millisecond, 2 * time.Millisecond},
		MaxDelay:     maxDelay,
		Body:         body,
	})
}
