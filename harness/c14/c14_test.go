// C14 — containers refine their models: linearizable maps/slice (porcupine), ring vs
// container/ring, buffered ring vs a plain FIFO queue.
package c14

import (
	stdring "container/ring"
	"fmt"
	"sort"
	"strings"
	"testing"

	"github.com/anishathalye/porcupine"
	"github.com/dapr/kit/concurrency/cmap"
	"github.com/dapr/kit/concurrency/slice"
	"github.com/dapr/kit/ring"

	"verif/harness/common"
	"verif/simrt"
)

type in struct {
	op   string
	key  string
	val  int
	vals []int
	h    int // handle (atomic)
	stop int // Range: the callback asks to stop after this many entries (0 = visit everything)
}

type out struct {
	val int
	ok  bool
	set string // canonical rendering of a set / sequence result
	h   int
	n   int
}

func render(m map[string]int) string {
	ks := make([]string, 0, len(m))
	for k := range m {
		ks = append(ks, k)
	}
	sort.Strings(ks)
	var b strings.Builder
	for _, k := range ks {
		fmt.Fprintf(&b, "%s=%d,", k, m[k])
	}
	return b.String()
}

func parse(st string) map[string]int {
	m := map[string]int{}
	for _, kv := range strings.Split(st, ",") {
		if kv == "" {
			continue
		}
		var k string
		var v int
		i := strings.IndexByte(kv, '=')
		k = kv[:i]
		fmt.Sscanf(kv[i+1:], "%d", &v)
		m[k] = v
	}
	return m
}

// ---- sequential models (state is a canonical string so that porcupine can compare with ==)

var mapModel = porcupine.Model{
	Init: func() interface{} { return "" },
	Step: func(state, input, output interface{}) (bool, interface{}) {
		m := parse(state.(string))
		i, o := input.(in), output.(out)
		switch i.op {
		case "Store":
			m[i.key] = i.val
			return true, render(m)
		case "Load":
			v, ok := m[i.key]
			return ok == o.ok && (!ok || v == o.val), state
		case "Delete":
			delete(m, i.key)
			return true, render(m)
		case "LoadAndDelete":
			v, ok := m[i.key]
			delete(m, i.key)
			return ok == o.ok && (!ok || v == o.val), render(m)
		case "Len":
			return o.n == len(m), state
		case "Keys":
			ks := make([]string, 0, len(m))
			for k := range m {
				ks = append(ks, k)
			}
			sort.Strings(ks)
			return o.set == strings.Join(ks, ","), state
		case "Range":
			if i.stop == 0 {
				return o.set == state.(string), state
			}
			// stopped early: exactly min(stop, size) entries, each one of the map's at that moment
			got := parse(o.set)
			want := i.stop
			if len(m) < want {
				want = len(m)
			}
			if len(got) != want {
				return false, state
			}
			for k, v := range got {
				if mv, ok := m[k]; !ok || mv != v {
					return false, state
				}
			}
			return true, state
		case "Clear":
			return true, ""
		}
		return false, state
	},
	DescribeOperation: func(input, output interface{}) string { return fmt.Sprintf("%+v -> %+v", input, output) },
}

// atomic map: state "k>h,...|h=v,..." (key -> handle, handle -> counter)
func parseAtomic(st string) (map[string]int, map[string]int) {
	parts := strings.SplitN(st, "|", 2)
	if len(parts) < 2 {
		return map[string]int{}, map[string]int{}
	}
	return parse(parts[0]), parse(parts[1])
}

var atomicModel = porcupine.Model{
	Init: func() interface{} { return "|" },
	Step: func(state, input, output interface{}) (bool, interface{}) {
		km, hv := parseAtomic(state.(string))
		i, o := input.(in), output.(out)
		hk := func(h int) string { return fmt.Sprintf("h%d", h) }
		switch i.op {
		case "GetOrCreate":
			if h, ok := km[i.key]; ok {
				return o.h == h, state
			}
			if _, seen := hv[hk(o.h)]; seen {
				return false, state
			}
			km[i.key] = o.h
			hv[hk(o.h)] = i.val
			return true, render(km) + "|" + render(hv)
		case "Get":
			h, ok := km[i.key]
			return ok == o.ok && (!ok || h == o.h), state
		case "Delete":
			delete(km, i.key)
			return true, render(km) + "|" + render(hv)
		case "Clear":
			return true, "|" + render(hv)
		case "ForEach":
			return o.set == render(km), state
		case "Add":
			v, ok := hv[hk(i.h)]
			if !ok {
				return false, state
			}
			hv[hk(i.h)] = v + i.val
			return o.val == v+i.val, render(km) + "|" + render(hv)
		case "VLoad":
			v, ok := hv[hk(i.h)]
			return ok && v == o.val, state
		case "VStore":
			hv[hk(i.h)] = i.val
			return true, render(km) + "|" + render(hv)
		}
		return false, state
	},
	DescribeOperation: func(input, output interface{}) string { return fmt.Sprintf("%+v -> %+v", input, output) },
}

var sliceModel = porcupine.Model{
	Init: func() interface{} { return "" },
	Step: func(state, input, output interface{}) (bool, interface{}) {
		st := state.(string)
		i, o := input.(in), output.(out)
		n := 0
		if st != "" {
			n = strings.Count(st, ",")
		}
		switch i.op {
		case "Append":
			for _, v := range i.vals {
				st += fmt.Sprintf("%d,", v)
			}
			return o.n == n+len(i.vals), st
		case "Len":
			return o.n == n, st
		case "Slice":
			return o.set == st, st
		}
		return false, st
	},
	DescribeOperation: func(input, output interface{}) string { return fmt.Sprintf("%+v -> %+v", input, output) },
}

type rec struct {
	client    int
	in        in
	out       out
	call, ret uint64
}

func concurrent(s *simrt.Sim, kind int, tier string) {
	keys := []string{"a", "b", "c"}[:1+s.Choose(3, "keys")]
	nclients := 2 + s.Choose(3, "clients")
	maxOps := 5
	val := 0
	var plans [][]in
	var opsFor []string
	switch kind {
	case 0:
		opsFor = []string{"Store", "Store", "Load", "Load", "Delete", "LoadAndDelete", "Len", "Keys", "Range", "Clear"}
	case 1:
		opsFor = []string{"GetOrCreate", "GetOrCreate", "Get", "Delete", "ForEach", "Clear", "Add", "Add", "VLoad", "VStore"}
	case 2:
		opsFor = []string{"Append", "Append", "Len", "Slice"}
	}
	for c := 0; c < nclients; c++ {
		var l []in
		for j, n := 0, 1+s.Choose(maxOps, "nops"); j < n; j++ {
			i := in{op: opsFor[s.Choose(len(opsFor), "op")], key: keys[s.Choose(len(keys), "key")]}
			val++
			i.val = val
			if i.op == "Range" && s.Choose(3, "rangestop") == 0 {
				i.stop = 1 + s.Choose(2, "rangestopafter")
			}
			if i.op == "Append" {
				for k, m := 0, 1+s.Choose(2, "nitems"); k < m; k++ {
					val++
					i.vals = append(i.vals, val)
				}
			}
			l = append(l, i)
		}
		plans = append(plans, l)
	}
	m := cmap.NewMap[string, int]()
	a := cmap.NewAtomic[string, int64]()
	sl := slice.New[int]()
	handles := map[*cmap.AtomicValue[int64]]int{}
	var byIdx []*cmap.AtomicValue[int64]
	hidx := func(p *cmap.AtomicValue[int64]) int {
		if h, ok := handles[p]; ok {
			return h
		}
		handles[p] = len(handles) + 1
		byIdx = append(byIdx, p)
		return handles[p]
	}
	var hist []*rec
	var names []string
	for c, l := range plans {
		c, l := c, l
		name := fmt.Sprintf("c%d", c)
		names = append(names, name)
		s.Go(name, func() {
			for _, i := range l {
				r := &rec{client: c, in: i}
				// value ops of the atomic map need a handle: use the most recent one this run has seen
				if kind == 1 && (i.op == "Add" || i.op == "VLoad" || i.op == "VStore") {
					if len(byIdx) == 0 {
						continue
					}
					r.in.h = 1 + s.Choose(len(byIdx), "handle")
				}
				s.Yield("invoke")
				r.call = s.Stamp()
				hist = append(hist, r)
				switch kind {
				case 0:
					switch i.op {
					case "Store":
						m.Store(i.key, i.val)
					case "Load":
						r.out.val, r.out.ok = m.Load(i.key)
					case "Delete":
						m.Delete(i.key)
					case "LoadAndDelete":
						r.out.val, r.out.ok = m.LoadAndDelete(i.key)
					case "Len":
						r.out.n = m.Len()
					case "Keys":
						ks := m.Keys()
						sort.Strings(ks)
						r.out.set = strings.Join(ks, ",")
					case "Range":
						got := map[string]int{}
						m.Range(func(k string, v int) bool {
							got[k] = v
							s.Yield("range.cb")
							return i.stop == 0 || len(got) < i.stop
						})
						r.out.set = render(got)
					case "Clear":
						m.Clear()
					}
				case 1:
					switch i.op {
					case "GetOrCreate":
						r.out.h = hidx(a.GetOrCreate(i.key, int64(i.val)))
					case "Get":
						p, ok := a.Get(i.key)
						r.out.ok = ok
						if ok {
							r.out.h = hidx(p)
						}
					case "Delete":
						a.Delete(i.key)
					case "Clear":
						a.Clear()
					case "ForEach":
						got := map[string]int{}
						a.ForEach(func(k string, v *cmap.AtomicValue[int64]) {
							got[k] = hidx(v)
							s.Yield("foreach.cb")
						})
						r.out.set = render(got)
					case "Add":
						r.out.val = int(byIdx[r.in.h-1].Add(int64(i.val)))
					case "VLoad":
						r.out.val = int(byIdx[r.in.h-1].Load())
					case "VStore":
						byIdx[r.in.h-1].Store(int64(i.val))
					}
				case 2:
					switch i.op {
					case "Append":
						r.out.n = sl.Append(i.vals...)
					case "Len":
						r.out.n = sl.Len()
					case "Slice":
						var b strings.Builder
						snap := sl.Slice()
						for _, v := range snap {
							fmt.Fprintf(&b, "%d,", v)
						}
						r.out.set = b.String()
						if s.Choose(2, "appendToSnapshot") == 0 {
							// what callers do with a slice they were handed: build on it. That is no operation on the
							// container and must not change what the container holds
							s.Yield("snapshot.append")
							snap = append(snap, -(1000 + i.val))
							_ = snap
						}
					}
				}
				r.ret = s.Stamp()
				s.Logf("c%d %s %s %d -> %+v", c, i.op, i.key, i.val, r.out)
			}
		})
	}
	if !s.Join(0, names...) {
		return
	}
	for _, r := range hist {
		if r.ret == 0 {
			s.Fail("hang", "container operation did not return\n"+s.Dump())
			return
		}
	}
	var ops []porcupine.Operation
	for _, r := range hist {
		ops = append(ops, porcupine.Operation{ClientId: r.client, Input: r.in, Call: int64(r.call), Output: r.out, Return: int64(r.ret)})
	}
	model := []porcupine.Model{mapModel, atomicModel, sliceModel}[kind]
	if !porcupine.CheckOperations(model, ops) {
		var b strings.Builder
		for _, r := range hist {
			fmt.Fprintf(&b, "  c%d [%d,%d] %+v -> %+v\n", r.client, r.call, r.ret, r.in, r.out)
		}
		s.Fail("not-linearizable", fmt.Sprintf("%s: history has no linearization\n%s", []string{"cmap.Map", "cmap.Atomic", "slice.Slice"}[kind], b.String()))
	}
	s.Probe("porcupine.checked")
}

// ---------------------------------------------------------------- ring vs container/ring

func ringSeq(s *simrt.Sim) {
	defer func() {
		if x := recover(); x != nil {
			s.Fail("ring-panic", fmt.Sprintf("ring operation panicked where container/ring does not: %v", x))
		}
	}()
	if s.Choose(4, "zerovalue") == 0 {
		// container/ring documents that the zero value is a one-element ring: every method must work on it first
		r, m := &ring.Ring[int]{}, &stdring.Ring{}
		var a, b []string
		visit := func() {
			r.Do(func(v int) { a = append(a, fmt.Sprint(v)) })
			m.Do(func(v any) { b = append(b, fmt.Sprint(v)) })
		}
		switch s.Choose(6, "zerofirst") {
		case 0:
			visit()
		case 1:
			r, m = r.Next(), m.Next()
		case 2:
			r, m = r.Prev(), m.Prev()
		case 3:
			k := s.Choose(5, "zmove") - 2
			r, m = r.Move(k), m.Move(k)
		case 4:
			r.Link(ring.New[int](2))
			m.Link(stdring.New(2))
		case 5:
			r.Unlink(s.Choose(3, "zunlink"))
			m.Unlink(s.Choose(3, "zunlink2"))
		}
		a, b = nil, nil
		visit()
		if len(a) != len(b) || r.Len() != m.Len() {
			s.Fail("ring-differs", fmt.Sprintf("zero-value ring: Do visited %d elements, container/ring %d; Len %d vs %d", len(a), len(b), r.Len(), m.Len()))
		}
		s.Probe("ring.zero-value")
		return
	}
	n := s.Choose(6, "size")
	r := ring.New[int](n)
	m := stdring.New(n)
	// container/ring.New(0) returns nil; so does ring.New
	if (r == nil) != (m == nil) {
		s.Fail("ring-new", fmt.Sprintf("New(%d): nil mismatch", n))
		return
	}
	if r == nil {
		if r.Len() != m.Len() {
			s.Fail("ring-len", "Len of nil ring differs")
		}
		return
	}
	next := 1
	fill := func(r *ring.Ring[int], m *stdring.Ring) {
		for i, l := 0, m.Len(); i < l; i++ {
			r.Value, m.Value = next, next
			next++
			r, m = r.Next(), m.Next()
		}
	}
	fill(r, m)
	dump := func(r *ring.Ring[int], m *stdring.Ring) (string, string) {
		var a, b strings.Builder
		r.Do(func(v int) { fmt.Fprintf(&a, "%d,", v) })
		m.Do(func(v any) {
			if v == nil {
				v = 0
			}
			fmt.Fprintf(&b, "%v,", v)
		})
		return a.String(), b.String()
	}
	for i, ops := 0, 1+s.Choose(60, "nops"); i < ops; i++ {
		var what string
		switch s.Choose(6, "ringop") {
		case 0:
			r, m = r.Next(), m.Next()
			what = "Next"
		case 1:
			r, m = r.Prev(), m.Prev()
			what = "Prev"
		case 2:
			k := s.Choose(13, "move") - 6
			r, m = r.Move(k), m.Move(k)
			what = fmt.Sprintf("Move(%d)", k)
		case 3:
			k := 1 + s.Choose(3, "linksize")
			r2, m2 := ring.New[int](k), stdring.New(k)
			fill(r2, m2)
			rr, mm := r.Link(r2), m.Link(m2)
			a, b := dump(rr, mm)
			if a != b {
				s.Fail("ring-link-result", fmt.Sprintf("Link returned ring %s, container/ring %s", a, b))
			}
			what = fmt.Sprintf("Link(new %d)", k)
		case 4:
			k := s.Choose(4, "unlink")
			if m.Len() <= 1 {
				k = 0
			}
			rr, mm := r.Unlink(k), m.Unlink(k)
			if (rr == nil) != (mm == nil) {
				s.Fail("ring-unlink-result", fmt.Sprintf("Unlink(%d): nil mismatch", k))
			} else if rr != nil {
				a, b := dump(rr, mm)
				if a != b {
					s.Fail("ring-unlink-result", fmt.Sprintf("Unlink(%d) returned %s, container/ring %s", k, a, b))
				}
			}
			what = fmt.Sprintf("Unlink(%d)", k)
		case 5:
			// link within the same ring (splits it)
			k := s.Choose(5, "selflink")
			r2, m2 := r.Move(k), m.Move(k)
			rr, mm := r.Link(r2), m.Link(m2)
			a, b := dump(rr, mm)
			if a != b {
				s.Fail("ring-link-result", fmt.Sprintf("Link(self+%d) returned ring %s, container/ring %s", k, a, b))
			}
			what = fmt.Sprintf("Link(self+%d)", k)
		}
		a, b := dump(r, m)
		if a != b || r.Len() != m.Len() {
			s.Fail("ring-differs", fmt.Sprintf("after %s (op %d): ring %s len %d, container/ring %s len %d", what, i, a, r.Len(), b, m.Len()))
			return
		}
	}
	s.Probe("ring.sequence")
}

// ---------------------------------------------------------------- buffered ring vs plain queue

func bufferedSeq(s *simrt.Sim) {
	initial, bsize := s.Choose(6, "initial"), s.Choose(6, "bsize")
	b := ring.NewBuffered[int](initial, bsize)
	var q []*int
	next := 0
	for i, ops := 0, 1+s.Choose(60, "nops"); i < ops; i++ {
		what := ""
		switch k := s.Choose(8, "bop"); {
		case k < 4:
			next++
			v := next
			b.AppendBack(&v)
			q = append(q, &v)
			what = fmt.Sprintf("AppendBack(%d)", v)
		case k < 7:
			got := b.RemoveFront()
			if len(q) == 0 {
				// nothing to remove: a queue stays empty and has no front to report
				if got != nil {
					s.Fail("buffered-removefront", fmt.Sprintf("initial=%d bsize=%d op %d: RemoveFront on an empty buffer returned %v", initial, bsize, i, *got))
					return
				}
				what = "RemoveFront on the empty buffer"
				break
			}
			q = q[1:]
			var want *int
			if len(q) > 0 {
				want = q[0]
			}
			if (got == nil) != (want == nil) || (got != nil && *got != *want) {
				s.Fail("buffered-removefront", fmt.Sprintf("initial=%d bsize=%d op %d: RemoveFront returned %v, the queue's next front is %v", initial, bsize, i, deref(got), deref(want)))
				return
			}
			what = "RemoveFront"
		default:
			what = "Range"
			stop := s.Choose(4, "stopAt")
			var got []int
			b.Range(func(v *int) bool {
				got = append(got, deref(v))
				return len(got) != stop
			})
			var want []int
			for _, p := range q {
				want = append(want, *p)
				if len(want) == stop {
					break
				}
			}
			if fmt.Sprint(got) != fmt.Sprint(want) {
				s.Fail("buffered-range", fmt.Sprintf("initial=%d bsize=%d op %d: Range visited %v, queue holds %v (stop after %d)", initial, bsize, i, got, want, stop))
				return
			}
		}
		if b.Len() != len(q) {
			s.Fail("buffered-len", fmt.Sprintf("initial=%d bsize=%d after %s: Len %d, queue %d", initial, bsize, what, b.Len(), len(q)))
			return
		}
		f := b.Front()
		if len(q) == 0 {
			if f != nil {
				s.Fail("buffered-front", fmt.Sprintf("initial=%d bsize=%d after %s: Front of an empty buffer is %v", initial, bsize, what, *f))
				return
			}
		} else if f == nil || *f != *q[0] {
			s.Fail("buffered-front", fmt.Sprintf("initial=%d bsize=%d after %s: Front %v, queue front %v", initial, bsize, what, deref(f), *q[0]))
			return
		}
	}
	s.Probe("buffered.sequence")
}

func deref(p *int) int {
	if p == nil {
		return -1
	}
	return *p
}

func body(s *simrt.Sim, tier string) {
	switch k := s.Choose(8, "container"); {
	case k < 2:
		concurrent(s, 0, tier)
	case k < 4:
		concurrent(s, 1, tier)
	case k < 5:
		concurrent(s, 2, tier)
	case k < 6:
		ringSeq(s)
	default:
		bufferedSeq(s)
	}
}

func TestWorker(t *testing.T) {
	common.Main(t, common.Harness{ID: "C14", NoDelays: true, Body: body})
}
