// C15 — ttlcache: Get never returns an expired, deleted or superseded value.
package c15

import (
	"fmt"
	"math"
	"testing"
	"time"

	"github.com/dapr/kit/ttlcache"

	"verif/harness/common"
	"verif/simrt"
)

type opRec struct {
	kind       string // Set Get Delete Cleanup Reset Sleep
	key        string
	val        int
	ttl        int64
	sleep      time.Duration
	inv, ret   uint64
	tInv, tRet time.Time
	hit        bool
	got        int
	client     int
}

var sleeps = []time.Duration{time.Second - time.Nanosecond, time.Second, time.Second + time.Nanosecond, 500 * time.Millisecond, 2 * time.Second, 3 * time.Second}

const maxInjectedDelay = 1500 * time.Millisecond

func capTTL(ttl, max int64) time.Duration {
	if max > 0 && ttl > max {
		ttl = max
	}
	if ttl > math.MaxInt64/int64(time.Second) {
		// more seconds than a time.Duration can hold: for all practical purposes "never"
		return time.Duration(math.MaxInt64)
	}
	return time.Duration(ttl) * time.Second
}

func body(s *simrt.Sim, tier string) {
	sequential := s.Choose(3, "sequential") == 0
	maxTTL := []int64{0, 0, 2, 3, 1}[s.Choose(5, "maxttl")]
	interval := []time.Duration{150 * time.Second, 0, -time.Second}[s.Choose(3, "defaultinterval")] // zero or negative: the documented default (150 s)
	if !sequential {
		interval = []time.Duration{time.Second, 2 * time.Second, 700 * time.Millisecond}[s.Choose(3, "interval")]
	} else {
		// exact comparison: no injected delays and no periodic cleaner racing the client's Sets
		// (the documented cleanup/refresh race would otherwise apply); manual Cleanup is an operation
		s.DisableDelays()
	}
	// (the empty string is a key like any other)
	// (key-7/key-11 and key-8/key-0 land in one bucket of the underlying hash map, at every table size up to 64)
	keys := [][]string{{"a", "b", "c"}, {"", "b", "c"}, {"a", ""}, {"key-7", "key-11", "key-17"}, {"key-8", "key-0", "key-7"}}[s.Choose(5, "keyset")]
	keys = keys[:1+s.Choose(len(keys), "keys")]
	nclients := 1
	if !sequential {
		nclients = 2 + s.Choose(2, "clients")
	}
	var plans [][]*opRec
	val := 0
	for c := 0; c < nclients; c++ {
		var l []*opRec
		for j, n := 0, 2+s.Choose(8, "nops"); j < n; j++ {
			o := &opRec{client: c, key: keys[s.Choose(len(keys), "key")]}
			switch k := s.Choose(16, "op"); {
			case k < 5:
				o.kind = "Set"
				val++
				o.val = val
				o.ttl = int64(1 + s.Choose(4, "ttl"))
				if s.Choose(8, "hugettl") == 0 {
					// far above MaxTTL: still capped; without a MaxTTL: lives that long (seconds that do not fit a
					// time.Duration included: an entry meant to stay "for ever")
					o.ttl = []int64{1 << 33, 9223372036, 9223372037, math.MaxInt64}[s.Choose(4, "hugettl.v")]
				}
			case k < 10:
				o.kind = "Get"
			case k < 11:
				o.kind = "Delete"
			case k < 12:
				o.kind = "Cleanup"
			case k < 13:
				o.kind = "Reset"
			default:
				o.kind = "Sleep"
				o.sleep = sleeps[s.Choose(len(sleeps), "sleep")]
			}
			l = append(l, o)
		}
		plans = append(plans, l)
	}
	cache := ttlcache.NewCache[int](ttlcache.CacheOptions{CleanupInterval: interval, MaxTTL: maxTTL})
	start := time.Now()
	var hist []*opRec
	type ent struct {
		val int
		exp time.Time
	}
	model := map[string]ent{} // sequential configuration only
	var names []string
	for c, l := range plans {
		l := l
		name := fmt.Sprintf("c%d", c)
		names = append(names, name)
		s.Go(name, func() {
			for _, o := range l {
				if o.kind == "Sleep" {
					s.Sleep(o.sleep)
					continue
				}
				s.Yield("invoke")
				o.inv, o.tInv = s.Stamp(), time.Now()
				hist = append(hist, o)
				switch o.kind {
				case "Set":
					cache.Set(o.key, o.val, o.ttl)
				case "Get":
					o.got, o.hit = cache.Get(o.key)
				case "Delete":
					cache.Delete(o.key)
				case "Cleanup":
					cache.Cleanup()
				case "Reset":
					cache.Reset()
				}
				o.ret, o.tRet = s.Stamp(), time.Now()
				s.Logf("c%d %s %s v%d ttl%d -> hit=%v v%d @%v", o.client, o.kind, o.key, o.val, o.ttl, o.hit, o.got, o.tRet.Sub(start))
				if sequential {
					switch o.kind {
					case "Set":
						model[o.key] = ent{o.val, o.tInv.Add(capTTL(o.ttl, maxTTL))}
					case "Delete":
						delete(model, o.key)
					case "Reset":
						model = map[string]ent{}
					case "Get":
						e, ok := model[o.key]
						want := ok && e.exp.After(o.tInv)
						if want != o.hit || (want && e.val != o.got) {
							s.Fail("model-mismatch", fmt.Sprintf("Get(%s) at %v returned hit=%v v%d; the reference map says hit=%v v%d (expiry %v)", o.key, o.tInv.Sub(start), o.hit, o.got, want, e.val, e.exp.Sub(start)))
						}
					}
				}
			}
		})
	}
	if !s.Join(time.Hour, names...) {
		s.Fail("hang", "cache operations did not return\n"+s.Dump())
		return
	}
	if !sequential {
		for _, g := range hist {
			if g.kind != "Get" {
				continue
			}
			if g.hit {
				var src *opRec
				for _, o := range hist {
					if o.kind == "Set" && o.key == g.key && o.val == g.got {
						src = o
					}
				}
				if src == nil || src.inv > g.ret {
					s.Fail("value-from-nowhere", fmt.Sprintf("Get(%s) returned v%d which no Set had stored by then", g.key, g.got))
					continue
				}
				if !src.tRet.Add(capTTL(src.ttl, maxTTL)).After(g.tInv) {
					s.Fail("expired-value-returned", fmt.Sprintf("Get(%s) at %v returned v%d set at %v with ttl %v: expired", g.key, g.tInv.Sub(start), g.got, src.tRet.Sub(start), capTTL(src.ttl, maxTTL)))
				}
				for _, o := range hist {
					if (o.key == g.key && (o.kind == "Set" || o.kind == "Delete") || o.kind == "Reset") && o != src && o.inv > src.ret && o.ret < g.inv {
						s.Fail("stale-value-returned", fmt.Sprintf("Get(%s) returned v%d although %s(%s) completed after that Set and before the Get", g.key, g.got, o.kind, o.key))
					}
				}
				continue
			}
			// a miss: is some value certainly live?
			for _, src := range hist {
				if src.kind != "Set" || src.key != g.key || src.ret > g.inv {
					continue
				}
				if !src.tInv.Add(capTTL(src.ttl, maxTTL)).After(g.tRet) {
					continue // may have expired
				}
				sure := true
				hadPrior := false
				for _, o := range hist {
					if o == src {
						continue
					}
					touches := o.key == g.key && (o.kind == "Set" || o.kind == "Delete") || o.kind == "Reset"
					if touches && o.ret > src.inv && o.inv < g.ret {
						sure = false // could have removed / replaced it
					}
					if o.kind == "Set" && o.key == g.key && o.inv < src.ret {
						hadPrior = true // documented cleanup/refresh race needs an older entry of the same key
					}
				}
				if hadPrior {
					// ... and a cleanup pass that scanned the old entry before this Set wrote the new one and deleted
					// after it: a manual Cleanup overlapping the Set, or a periodic pass (ticks fall on the grid
					// start + k*interval; a pass can be stretched by the injected-delay budget, no further)
					overlap := false
					for _, o := range hist {
						if o.kind == "Cleanup" && o.ret > src.inv && o.inv < src.ret {
							overlap = true
						}
					}
					if interval > 0 {
						for tick := start.Add(interval); !tick.After(src.tRet); tick = tick.Add(interval) {
							if !tick.Add(maxInjectedDelay).Before(src.tInv) {
								overlap = true
							}
						}
					}
					if !overlap {
						hadPrior = false
					}
				}
				if sure && !hadPrior {
					s.Fail("live-entry-missing", fmt.Sprintf("Get(%s) at %v missed although v%d (set at %v, ttl %v) is live, was never deleted or overwritten, and no cleanup pass overlapped that Set (the documented cleanup/refresh race needs an older entry of the key and a pass under way while it is replaced)", g.key, g.tInv.Sub(start), src.val, src.tInv.Sub(start), capTTL(src.ttl, maxTTL)))
				}
			}
		}
	}
	// Stop: from one or two callers at once (and possibly while the cleaner is in the middle of a
	// Cleanup); every call must return only after the cleaner goroutine has exited
	nstop := 1 + s.Choose(2, "stoppers")
	var snames []string
	returned := 0
	for i := 0; i < nstop; i++ {
		name := fmt.Sprintf("stopper%d", i)
		snames = append(snames, name)
		s.Go(name, func() {
			s.Yield("stop")
			cache.Stop()
			returned++
			if l := s.Live(""); len(l) > 0 {
				s.Fail("cleaner-alive-after-stop", fmt.Sprintf("Stop returned (caller %s of %d) while the background cleaner is alive: %v", name, nstop, l))
			}
		})
	}
	if !s.Join(time.Hour, snames...) || returned != nstop {
		s.Fail("stop-hang", "Stop did not return\n"+s.Dump())
		return
	}
	// A stopped cache has lost its cleaner, nothing else: Set, Get and Delete go on, and Get still never returns
	// a superseded, deleted or expired value (one caller, exact reference).
	if s.Choose(2, "afterStop") == 0 {
		s.Go("afterstop", func() {
			for j, n := 0, 1+s.Choose(3, "afterStop.n"); j < n; j++ {
				key := keys[s.Choose(len(keys), "afterStop.key")]
				val++
				ttl := int64(1 + s.Choose(3, "afterStop.ttl"))
				t0 := time.Now()
				cache.Set(key, val, ttl)
				// (the scheduler's injected delays may add up to more than a short ttl: a miss is wrong only if
				// less than the ttl has passed when Get returns)
				if got, hit := cache.Get(key); (hit && got != val) || (!hit && time.Since(t0) < capTTL(ttl, maxTTL)) {
					s.Fail("after-stop-set-lost", fmt.Sprintf("after Stop: Set(%s, v%d, ttl %ds) then Get returned hit=%v v%d", key, val, ttl, hit, got))
				}
				switch s.Choose(3, "afterStop.then") {
				case 0:
					cache.Delete(key)
					if got, hit := cache.Get(key); hit {
						s.Fail("after-stop-deleted-value", fmt.Sprintf("after Stop: Delete(%s) then Get returned v%d", key, got))
					}
				case 1:
					s.Sleep(capTTL(ttl, maxTTL))
					if got, hit := cache.Get(key); hit {
						s.Fail("after-stop-expired-value", fmt.Sprintf("after Stop: Get(%s) returned v%d %v after it was set with that ttl", key, got, capTTL(ttl, maxTTL)))
					}
				}
			}
		})
		if !s.Join(time.Hour, "afterstop") {
			s.Fail("after-stop-hang", "operations on a stopped cache did not return\n"+s.Dump())
		}
	}
}

func TestWorker(t *testing.T) {
	common.Main(t, common.Harness{
		ID:           "C15",
		DelayPalette: []time.Duration{time.Millisecond, 100 * time.Millisecond, 600 * time.Millisecond},
		MaxDelay:     maxInjectedDelay,
		Body:         body,
	})
}
