// C10 — Batcher: last value per key once per quiet interval; departures never wedge it.
package c10

import (
	"context"
	"fmt"
	"sync/atomic"
	"testing"
	"time"

	"github.com/dapr/kit/events/batcher"

	"verif/harness/common"
	"verif/simrt"
)

const (
	interval = 10 * time.Millisecond
	maxDelay = 6 * time.Millisecond
	early    = 500 * time.Microsecond
)

type recv struct {
	val   int
	stamp uint64
	at    time.Time
}

type sub struct {
	id         int
	mode       int // 0 prompt, 1 slow, 2 stalled until resume
	dead       bool // stalled, cancelled, and never read again
	subInvTime time.Time
	willCancel bool
	cancelAt   time.Duration
	joinAt     time.Duration
	ctx        context.Context
	cancel     context.CancelFunc
	ch         chan int

	subInvoke, subReturn uint64
	cancelStamp          uint64
	got                  []recv
	closedSeen           bool
	closedStamp          uint64
}

type bcall struct {
	key              string
	val              int
	inv, ret         uint64
	invTime, retTime time.Time
}

type bop struct {
	sleep time.Duration
	call  *bcall
}

var sleeps = []time.Duration{time.Millisecond, 3 * time.Millisecond, 5 * time.Millisecond, 10 * time.Millisecond, 12 * time.Millisecond, 25 * time.Millisecond}

func body(s *simrt.Sim, tier string) {
	flood := s.Choose(4, "flood") == 0
	closeRace := s.Choose(5, "closeRace") == 0 // Close at an arbitrary instant, racing Batch, Subscribe and deliveries
	nsubs := 1 + s.Choose(3, "nsubs")
	var subs []*sub
	anyStall := false
	for i := 0; i < nsubs; i++ {
		sb := &sub{id: i, ch: make(chan int)}
		sb.mode = s.Choose(3, "submode")
		if flood && i == 0 {
			sb.mode = 2
		}
		if sb.mode == 2 {
			anyStall = true
		}
		sb.willCancel = s.Choose(3, "cancel?") == 0
		if flood && i == 0 {
			sb.willCancel = s.Choose(4, "cancel0?") != 0
		}
		sb.cancelAt = sleeps[s.Choose(len(sleeps), "cancelAt")]
		if flood && i == 0 {
			sb.cancelAt = 30 * time.Millisecond
		}
		if s.Choose(3, "late?") == 0 && !(flood && i == 0) {
			sb.joinAt = sleeps[s.Choose(len(sleeps), "joinAt")]
		}
		sb.ctx, sb.cancel = context.WithCancel(context.Background())
		subs = append(subs, sb)
	}
	nb := 1 + s.Choose(2, "nbatchers")
	var calls []*bcall
	var bops [][]bop
	nval := 0
	for j := 0; j < nb; j++ {
		var l []bop
		if flood && j == 0 {
			n := 52 + s.Choose(12, "floodn")
			for k := 0; k < n; k++ {
				nval++
				c := &bcall{key: fmt.Sprintf("f%d", k), val: nval}
				calls = append(calls, c)
				l = append(l, bop{call: c})
			}
		} else {
			n := 1 + s.Choose(6, "nbops")
			for k := 0; k < n; k++ {
				if s.Choose(3, "bsleep?") == 0 {
					l = append(l, bop{sleep: sleeps[s.Choose(len(sleeps), "bsleep")]})
					continue
				}
				nval++
				c := &bcall{key: string(rune('a' + s.Choose(3, "key"))), val: nval}
				calls = append(calls, c)
				l = append(l, bop{call: c})
			}
		}
		bops = append(bops, l)
	}

	b := batcher.New[string, int](interval)
	var resume, stopReaders atomic.Bool
	deadAfterCancel := s.Choose(2, "deadAfterCancel") == 0
	// a subscriber that does not read at all - it stays stalled for good, with more events outstanding than
	// the internal buffer holds: Close, at whatever point of the blocked delivery, returns all the same
	hardStall := flood && s.Choose(2, "hardstall") == 0
	var closeReturn, closeInvoke atomic.Uint64

	var subNames, workNames []string
	for _, sb := range subs {
		sb := sb
		name := fmt.Sprintf("sub%d", sb.id)
		subNames = append(subNames, name)
		s.Go(name, func() {
			if sb.joinAt > 0 {
				s.Sleep(sb.joinAt)
			}
			sb.subInvoke = s.Stamp()
			sb.subInvTime = time.Now()
			s.Logf("subscribe s%d mode %d", sb.id, sb.mode)
			b.Subscribe(sb.ctx, sb.ch)
			if closeReturn.Load() != 0 {
				// Close had already returned when this Subscribe came back: it must have been dropped
				if l := s.Live(""); len(l) > 0 {
					s.Fail("subscriber-registered-after-close", fmt.Sprintf("subscriber %d was registered although Close had already returned: %v", sb.id, l))
				}
			}
			s.Yield("sub.ret")
			sb.subReturn = s.Stamp()
			if sb.mode == 2 {
				s.WaitUntil("stalled", 0, func() bool { return resume.Load() })
				if sb.willCancel && deadAfterCancel {
					// a stalled subscriber whose context ended has left for good: it never reads again,
					// and nothing may be waiting for it
					sb.dead = true
					return
				}
			}
			for {
				var v int
				var ok bool
				late := false
				if closeRace || hardStall { // (with a silent subscriber a Subscribe may wait for the lock until Close)
					// a Subscribe that loses against Close is silently dropped and its channel never closed: poll
					tm := time.NewTimer(300 * time.Millisecond)
					timedOut := false
					s.Block("recv", func() {
						select {
						case v, ok = <-sb.ch:
							late = ok && closeReturn.Load() != 0
						case <-tm.C:
							timedOut = true
						}
					})
					tm.Stop()
					if timedOut {
						if !stopReaders.Load() {
							continue
						}
						// the timer may have won the select against a channel that is ready too: look once more
						select {
						case v, ok = <-sb.ch:
							late = ok && closeReturn.Load() != 0
						default:
							return
						}
					}
				} else {
					s.Block("recv", func() { v, ok = <-sb.ch; late = ok && closeReturn.Load() != 0 })
				}
				if !ok {
					sb.closedSeen = true
					sb.closedStamp = s.Stamp()
					return
				}
				st := s.Stamp()
				sb.got = append(sb.got, recv{v, st, time.Now()})
				s.Logf("s%d got %d", sb.id, v)
				if late {
					s.Fail("recv-after-close", fmt.Sprintf("subscriber %d received %d after Close had returned", sb.id, v))
				}
				if sb.mode == 1 && !resume.Load() {
					s.Sleep(2 * time.Millisecond)
				}
			}
		})
		if sb.willCancel {
			cn := fmt.Sprintf("cancel%d", sb.id)
			workNames = append(workNames, cn)
			s.Go(cn, func() {
				s.Sleep(sb.cancelAt)
				s.Logf("cancel s%d", sb.id)
				sb.cancelStamp = s.Stamp()
				sb.cancel()
				s.Fault("subscriber.cancel")
				s.Yield("cancel.ret")
			})
		}
	}
	for j, l := range bops {
		l := l
		name := fmt.Sprintf("b%d", j)
		workNames = append(workNames, name)
		s.Go(name, func() {
			for _, o := range l {
				if o.call == nil {
					s.Sleep(o.sleep)
					continue
				}
				c := o.call
				c.inv, c.invTime = s.Stamp(), time.Now()
				s.Logf("batch %s=%d", c.key, c.val)
				b.Batch(c.key, c.val)
				s.Yield("batch.ret")
				c.ret, c.retTime = s.Stamp(), time.Now()
			}
		})
	}
	// every Close call, also one overlapping another, returns only when nothing more will be sent
	doClose := func() {
		if closeInvoke.Load() == 0 {
			closeInvoke.Store(s.Stamp())
		}
		s.Logf("close")
		b.Close()
		// at the instant any Close returns, every forwarder and the processor loop have exited
		if l := s.Live(""); len(l) > 0 {
			s.Fail("goroutines-alive-after-close", fmt.Sprintf("Close returned while batcher goroutines were still alive: %v", l))
		}
		closeReturn.CompareAndSwap(0, s.Stamp())
		s.Yield("close.ret")
	}
	if closeRace {
		workNames = append(workNames, "closer")
		at := sleeps[s.Choose(len(sleeps), "closeAt")]
		s.Go("closer", func() {
			s.Sleep(at)
			s.Fault("close.racing")
			doClose()
		})
	}
	// 1. producers and cancellers finish (a stalled live subscriber may legitimately hold up Batch: backpressure),
	//    so stalled subscribers resume first if needed.
	if !s.Join(200*time.Millisecond, workNames...) {
		switch {
		case hardStall && closeRace:
			s.Fail("close-wedged-by-silent-subscriber", "a live subscriber does not read at all (more events outstanding than its buffer holds): Close must return all the same and let Batch return; Close / Batch / cancel did not return\n"+s.Dump())
			return
		case hardStall:
			// backpressure from the silent subscriber: the Close below must release whatever waits
			s.Probe("batch-blocked-until-close")
		default:
			resume.Store(true)
			if !s.Join(time.Hour, workNames...) {
				s.Fail("wedged", "Batch / cancel did not return although every stalled subscriber resumed reading or was cancelled\n"+s.Dump())
				return
			}
		}
	}
	if !hardStall {
		resume.Store(true)
	} else {
		s.Fault("subscriber.silent")
	}
	if anyStall {
		s.Fault("subscriber.stall")
	}
	// 2. drain: everything due is delivered
	s.Sleep(time.Second)

	// ---- oracles over the history (before Close)
	byKey := map[string][]*bcall{}
	for _, c := range calls {
		if c.ret != 0 {
			byKey[c.key] = append(byKey[c.key], c)
		}
	}
	valCall := map[int]*bcall{}
	for _, c := range calls {
		valCall[c.val] = c
	}
	for _, sb := range subs {
		seen := map[int]int{}
		for _, r := range sb.got {
			seen[r.val]++
			c := valCall[r.val]
			if seen[r.val] > 1 {
				s.Fail("delivered-twice", fmt.Sprintf("subscriber %d received value %d (key %s) %d times", sb.id, r.val, c.key, seen[r.val]))
			}
			// a value is sent to the subscribers of the moment its interval ends; without stalled subscribers to hold a
			// delivery up that moment is at most interval + injected delay after the Batch call returned, so somebody
			// who asked to subscribe only after that can never be handed this value (by whatever detour)
			if !anyStall && !flood && !sb.subInvTime.IsZero() && sb.subInvTime.After(c.retTime.Add(interval+maxDelay+time.Millisecond)) {
				s.Fail("stale-value-delivered", fmt.Sprintf("subscriber %d asked to subscribe %v after Batch(%s,%d) had returned and yet received that value (interval %v)", sb.id, sb.subInvTime.Sub(c.retTime), c.key, c.val, interval))
			}
			if r.at.Before(c.invTime.Add(interval - early)) {
				s.Fail("early", fmt.Sprintf("value %d delivered %v after its Batch call, interval is %v", r.val, r.at.Sub(c.invTime), interval))
			}
			// superseded for sure: a later Batch of the same key returned before this one could be due
			for _, o := range byKey[c.key] {
				// (a Batch that overlaps or follows a Close invocation may be a no-op on the closed batcher: it supersedes nothing)
				if ci := closeInvoke.Load(); ci != 0 && o.ret > ci {
					continue
				}
				if o != c && o.inv > c.ret && o.retTime.Before(c.invTime.Add(interval-early)) {
					s.Fail("suppressed-value-delivered", fmt.Sprintf("subscriber %d received %d for key %s although Batch(%s,%d) returned %v after it, inside the interval", sb.id, c.val, c.key, o.key, o.val, o.retTime.Sub(c.invTime)))
				}
			}
		}
		if sb.willCancel || sb.subReturn == 0 || closeRace || hardStall {
			continue // with Close racing, pending values are legitimately dropped; a silent subscriber holds deliveries up until Close
		}
		// must-deliver
		for _, c := range calls {
			if c.ret == 0 || sb.subReturn > c.inv {
				continue
			}
			must := true
			for _, o := range byKey[c.key] {
				if o == c || o.ret < c.inv {
					continue
				}
				if !anyStall && o.invTime.After(c.retTime.Add(interval+maxDelay+time.Millisecond)) {
					continue
				}
				must = false
			}
			if must && seen[c.val] == 0 {
				s.Fail("not-delivered", fmt.Sprintf("subscriber %d (subscribed before the call, never cancelled, reading) never received value %d, the latest Batch for key %s\n%s", sb.id, c.val, c.key, s.Dump()))
			}
			if must && !anyStall && sb.mode == 0 {
				for _, r := range sb.got {
					if r.val == c.val && r.at.After(c.retTime.Add(interval+maxDelay+time.Millisecond)) {
						s.Fail("late", fmt.Sprintf("value %d reached prompt subscriber %d %v after Batch returned (interval %v, at most %v injected delay)", c.val, sb.id, r.at.Sub(c.retTime), interval, maxDelay))
					}
				}
			}
		}
	}
	// common order
	for _, a := range subs {
		idx := map[int]int{}
		for i, r := range a.got {
			idx[r.val] = i
		}
		for _, o := range subs {
			last := -1
			for _, r := range o.got {
				if i, ok := idx[r.val]; ok {
					if i < last {
						s.Fail("order-differs", fmt.Sprintf("subscribers %d and %d saw common values in different orders", a.id, o.id))
					}
					last = i
				}
			}
		}
	}
	if s.Failed() {
		return
	}
	// 3. Close
	if !closeRace {
		s.Go("closer", doClose)
	}
	s.Go("closer2", doClose)
	if !s.Join(time.Hour, "closer", "closer2") {
		if hardStall {
			s.Fail("close-wedged-by-silent-subscriber", "Close did not return while a live subscriber does not read at all\n"+s.Dump())
			return
		}
		s.Fail("close-wedged", "Close did not return although no subscriber is stalled any more\n"+s.Dump())
		return
	}
	if !s.Join(time.Hour, workNames...) {
		s.Fail("wedged", "Close returned but Batch / cancel did not\n"+s.Dump())
		return
	}
	resume.Store(true)
	stopReaders.Store(true)
	if !s.Join(time.Hour, subNames...) {
		s.Fail("channel-not-closed", "a subscriber channel was not closed after Close returned\n"+s.Dump())
		return
	}
	for _, sb := range subs {
		if sb.dead {
			// nobody reads this channel any more: after Close it is closed all the same
			select {
			case _, open := <-sb.ch:
				sb.closedSeen = !open
			default:
			}
		}
		if sb.subReturn != 0 && sb.subReturn < closeInvoke.Load() && !sb.closedSeen {
			s.Fail("channel-not-closed", fmt.Sprintf("subscriber %d was accepted before Close was called but its channel was not closed", sb.id))
		}
	}
	s.Sleep(50 * time.Millisecond)
	if l := s.Live(""); len(l) > 0 {
		s.Fail("goroutines-alive-after-close", fmt.Sprintf("batcher goroutines alive after Close: %v", l))
	}
}

func TestWorker(t *testing.T) {
	common.Main(t, common.Harness{
		ID:           "C10",
		DelayPalette: []time.Duration{500 * time.Microsecond, time.Millisecond, 3 * time.Millisecond},
		MaxDelay:     maxDelay,
		Body:         body,
	})
}
