// C01 — enc/v1: Decrypt inverts Encrypt and the ciphertext follows the published format.
package c01

import (
	"bytes"
	"errors"
	"fmt"
	"io"
	"strings"
	"testing"

	enc "github.com/dapr/kit/schemes/enc/v1"

	"verif/harness/common"
	"verif/harness/enccommon"
	"verif/refmodels/refenc"
	"verif/simio"
	"verif/simrt"
)

func body(s *simrt.Sim, tier string) {
	maxSegs := 3
	if tier == "thorough" {
		maxSegs = 4
	}
	pt := enccommon.Plaintext(s, maxSegs)
	cphID := 1 + s.Choose(2, "cipher")
	cipher := []enc.Cipher{enc.CipherAESGCM, enc.CipherChaCha20Poly1305}[cphID-1]
	alg := enccommon.Algorithms[s.Choose(len(enccommon.Algorithms), "alg")]
	// (key names are arbitrary valid strings: control characters, DEL, line separators, quotes, non-ASCII and
	// non-printable runes all have to survive the manifest's JSON encoding)
	keyName := []string{"mykey", "vault/key/1", "k", "key\x1f1", "del\x7f", "nul\x00x", "ls\u2028ps\u2029", "tag\U000e0001", "q\"b\\s/\t\n", "é-ключ-鍵-🔑", "<html>&amp;"}[s.Choose(11, "keyname")]
	desc := fmt.Sprintf("plaintext %d bytes, cipher %s, algorithm %s, key %q", len(pt), cipher, alg.Name, keyName)

	if s.Choose(3, "direction") != 0 {
		// ---- kit encrypts; the reference implementation and the kit decrypt
		longName := 0
		if s.Choose(16, "longname") == 0 {
			// key names that bring the header close to its 64 KiB limit, from either side: Encrypt may refuse
			// such a name, but whatever it does produce must decrypt
			longName = []int{60000, 65300, 65380, 65400, 65424, 65440, 65500, 70000}[s.Choose(8, "longnamelen")]
			keyName = strings.Repeat("k", longName)
			desc = fmt.Sprintf("plaintext %d bytes, cipher %s, algorithm %s, key name of %d bytes", len(pt), cipher, alg.Name, longName)
		}
		opts := enc.EncryptOptions{Algorithm: alg.Name, KeyName: keyName}
		switch s.Choose(4, "nameopt") {
		case 1:
			opts.DecryptionKeyName = "other-" + keyName
		case 2:
			opts.OmitKeyName = true
		case 3:
			opts.DecryptionKeyName = "other-" + keyName
			opts.OmitKeyName = true
		}
		if cphID == 2 || s.Choose(2, "explicitcipher") == 0 {
			c := cipher
			opts.Cipher = &c
		} else {
			cphID, cipher = 1, enc.CipherAESGCM
		}
		v := &enccommon.Vault{S: s, Pad: enccommon.WrappedKeyPads[s.Choose(len(enccommon.WrappedKeyPads), "wfkpad")]}
		desc += fmt.Sprintf(", wrapped key %d bytes", 32+v.Pad)
		if s.Choose(4, "wrapappend") == 0 {
			v.WrapAppend = 1 + s.Choose(7, "wrapappendn")
			desc += fmt.Sprintf(", the wrap function frames the key in place with append(key, %d bytes...)", v.WrapAppend)
		}
		if s.Choose(3, "vaultcache") == 0 {
			v.Cached = true
			desc += ", vault client keeps unwrapped keys"
		}
		opts.WrapKeyFn = v.Wrap
		src := &simio.Reader{C: s, Data: pt, FailAt: -1}
		enccommon.Chunking(s, src)
		encR, err := enc.Encrypt(src, opts)
		if err != nil {
			if longName == 0 {
				s.Fail("encrypt-error", desc+": "+err.Error())
			}
			return
		}
		doc, rerr := enccommon.ReadAllChunked(s, encR)
		if rerr != io.EOF {
			if longName == 0 {
				s.Fail("encrypt-stream-error", desc+": "+fmt.Sprint(rerr))
			}
			return
		}
		s.Logf("%s -> document %d bytes", desc, len(doc))
		if len(v.WrapCalls) != 1 || v.WrapCalls[0].KeyName != keyName || v.WrapCalls[0].Algorithm != alg.Canonical {
			s.Fail("wrap-call", fmt.Sprintf("%s: wrap callback saw %+v", desc, v.WrapCalls))
		}
		// (2) independent implementation reads it
		p, perr := refenc.Parse(doc)
		if perr != nil {
			s.Fail("format", desc+": document does not follow the published layout: "+perr.Error())
			return
		}
		wantK := keyName
		if opts.DecryptionKeyName != "" {
			wantK = opts.DecryptionKeyName
		}
		if opts.OmitKeyName {
			wantK = ""
		}
		if p.Manifest.K != wantK || p.Manifest.KW != alg.ID || p.Manifest.CPH != cphID || !bytes.Equal(p.Manifest.WFK, v.WFK) {
			s.Fail("manifest-fields", fmt.Sprintf("%s (options %+v): manifest %s", desc, []any{opts.DecryptionKeyName, opts.OmitKeyName}, p.ManifestLine))
		}
		wantPayload := len(pt) + ((len(pt)+refenc.SegSize-1)/refenc.SegSize)*refenc.TagSize
		if len(p.Payload) != wantPayload {
			s.Fail("payload-size", fmt.Sprintf("%s: payload is %d bytes, the layout (64 KiB segments + 16-byte tags, none for an empty message) gives %d", desc, len(p.Payload), wantPayload))
		}
		got, derr := p.Decode(v.FileKey)
		if derr != nil || !bytes.Equal(got, pt) {
			s.Fail("reference-cannot-decrypt", fmt.Sprintf("%s: the independent implementation fails on the kit's output: %v (got %d bytes)", desc, derr, len(got)))
		}
		// (1)+(4) the kit decrypts it; key-name routing
		override := ""
		if s.Choose(3, "override") == 0 || wantK == "" && s.Choose(2, "override2") == 0 {
			override = "explicit-key"
		}
		dsrc := &simio.Reader{C: s, Data: doc, FailAt: -1}
		enccommon.Chunking(s, dsrc)
		decR, err := enc.Decrypt(dsrc, enc.DecryptOptions{UnwrapKeyFn: v.Unwrapper(keyName), KeyName: override})
		if wantK == "" && override == "" {
			if !errors.Is(err, enc.ErrDecryptionKeyMissing) {
				s.Fail("key-missing-not-reported", fmt.Sprintf("%s: no key name in manifest and none given, Decrypt returned %v", desc, err))
			}
			return
		}
		if err != nil {
			s.Fail("decrypt-error", desc+": "+err.Error())
			return
		}
		back, rerr := enccommon.ReadAllChunked(s, decR)
		if rerr != io.EOF || !bytes.Equal(back, pt) {
			s.Fail("roundtrip", fmt.Sprintf("%s: Decrypt(Encrypt(p)) gave %d bytes and %v", desc, len(back), rerr))
		}
		wantName := wantK
		if override != "" {
			wantName = override
		}
		if len(v.UnwrapCalls) != 1 || v.UnwrapCalls[0].KeyName != wantName || v.UnwrapCalls[0].Algorithm != alg.Canonical {
			s.Fail("unwrap-call", fmt.Sprintf("%s: unwrap callback saw %+v, expected key %q algorithm %s", desc, v.UnwrapCalls, wantName, alg.Canonical))
		}
		if v.Cached {
			// the same document a second time, through a vault client that keeps unwrapped keys: Decrypt inverts
			// Encrypt every time, not only the first
			dsrc2 := &simio.Reader{C: s, Data: doc, FailAt: -1}
			enccommon.Chunking(s, dsrc2)
			decR2, err := enc.Decrypt(dsrc2, enc.DecryptOptions{UnwrapKeyFn: v.Unwrapper(keyName), KeyName: override})
			if err != nil {
				s.Fail("second-decrypt", fmt.Sprintf("%s: decrypting the same document again (vault with a key cache): %v", desc, err))
				return
			}
			back2, rerr2 := enccommon.ReadAllChunked(s, decR2)
			if rerr2 != io.EOF || !bytes.Equal(back2, pt) {
				s.Fail("second-decrypt", fmt.Sprintf("%s: decrypting the same document again (vault with a key cache) gave %d bytes and %v", desc, len(back2), rerr2))
			}
		}
		return
	}
	// ---- (3) the reference implementation encrypts; the kit decrypts
	variant := s.Choose(3, "manifestvariant")
	pad := enccommon.WrappedKeyPads[s.Choose(len(enccommon.WrappedKeyPads), "wfkpad")]
	doc, _, err := enccommon.RefDocumentPad(s, pt, keyName, alg.ID, cphID, variant, pad)
	if err != nil {
		s.Fail("infra-refencode", err.Error())
		return
	}
	v := &enccommon.Vault{S: s}
	override := ""
	if variant == 2 || s.Choose(3, "override") == 0 {
		override = "explicit-key"
	}
	dsrc := &simio.Reader{C: s, Data: doc, FailAt: -1}
	enccommon.Chunking(s, dsrc)
	decR, err := enc.Decrypt(dsrc, enc.DecryptOptions{UnwrapKeyFn: v.Unwrapper(keyName), KeyName: override})
	if err != nil {
		s.Fail("decrypt-reference-document", fmt.Sprintf("%s (manifest variant %d): Decrypt rejects a document produced by the independent implementation: %v", desc, variant, err))
		return
	}
	back, rerr := enccommon.ReadAllChunked(s, decR)
	if rerr != io.EOF || !bytes.Equal(back, pt) {
		s.Fail("decrypt-reference-document", fmt.Sprintf("%s (manifest variant %d): got %d bytes and %v", desc, variant, len(back), rerr))
	}
	wantName := keyName
	if override != "" {
		wantName = override
	}
	if len(v.UnwrapCalls) != 1 || v.UnwrapCalls[0].KeyName != wantName {
		s.Fail("unwrap-call", fmt.Sprintf("%s: unwrap callback saw %+v, expected key %q", desc, v.UnwrapCalls, wantName))
	}
}

func TestWorker(t *testing.T) {
	common.Main(t, common.Harness{ID: "C01", NoDelays: true, SeedCrypto: true, Body: body,
		// unwoven dataflow: a run is non-trivial when simulated I/O decisions (chunk sizes, zero reads, consumer buffers) were drawn
		NonTrivial: func(res *simrt.Result) bool {
			n := 0
			for _, e := range res.Tape {
				if e.Kind == "substream" || e.Kind == "consumerbuf" {
					n++
				}
			}
			return n >= 2
		}})
}
