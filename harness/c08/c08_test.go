// C08 — independent operations do not interfere through package-level shared state.
package c08

import (
	"bytes"
	"fmt"
	"io"
	"testing"
	"time"

	"github.com/dapr/kit/byteslicepool"
	"github.com/dapr/kit/cron"
	"github.com/dapr/kit/logger"
	enc "github.com/dapr/kit/schemes/enc/v1"

	"verif/harness/common"
	"verif/harness/enccommon"
	"verif/simio"
	"verif/simrt"
)

const marker = 0xEE

type pipeline struct {
	id     int
	pt     []byte
	cipher enc.Cipher
	key    string
	tamper bool // the document is corrupted before Decrypt: alone, this pipeline fails
	// the source of Encrypt (1) or Decrypt (2) fails mid-stream with its own error: alone, the
	// pipeline reports that error after releasing at most a prefix (an aborted upload or download)
	srcFail int
	out     []byte
	encErr  error
	decErr  error
	endErr  error
	done    bool
}

var runs int

func body(s *simrt.Sim, tier string) {
	runs++
	// (package-level state must not leak from one simulated run into the next: the kit's sync.Pools are
	// woven onto the simulator's model of a pool, which starts every run empty and does not depend on
	// the P a goroutine runs on or on garbage collections)
	// swarm: every run enables a random subset of the component families, so that the goroutines of
	// one family meet each other often instead of being diluted among a dozen unrelated ones
	fam := 1 + s.Choose(15, "families") // bit 0 pipelines (+ pool scribbler), 1 loggers, 2 cron parsers, 3 byte-slice pools
	np := 2 + s.Choose(3, "pipelines")
	if fam&1 == 0 {
		np = 0
	}
	var ps []*pipeline
	var perClient [][]*pipeline
	for i := 0; i < np; i++ {
		var mine []*pipeline
		for r, rounds := 0, 1+s.Choose(3, "rounds"); r < rounds; r++ {
			p := &pipeline{id: len(ps), key: fmt.Sprintf("key%d", i), cipher: []enc.Cipher{enc.CipherAESGCM, enc.CipherChaCha20Poly1305}[s.Choose(2, "cipher")]}
			n := s.Choose(1500, "ptlen")
			if i == 0 && r == 0 && s.Choose(6, "big") == 0 {
				n = []int{65535, 65536, 65537}[s.Choose(3, "bigsize")]
			}
			p.tamper = r == 0 && n > 0 && s.Choose(4, "tamper") == 0
			if !p.tamper && r == 0 && n > 0 && s.Choose(4, "srcfail") == 0 {
				p.srcFail = 1 + s.Choose(2, "srcfail.side")
			}
			p.pt = make([]byte, n)
			for j := range p.pt {
				p.pt[j] = byte(j*11+p.id*37) & 0x7f // never the marker byte
			}
			ps = append(ps, p)
			mine = append(mine, p)
		}
		perClient = append(perClient, mine)
	}
	var names []string
	for ci, mine := range perClient {
		mine := mine
		name := fmt.Sprintf("p%d", ci)
		names = append(names, name)
		s.Go(name, func() {
			for _, p := range mine {
				v := &enccommon.Vault{S: s, YieldInCalls: true}
				src := &simio.Reader{C: s, Data: p.pt, FailAt: -1, MaxChunk: 0}
				if len(p.pt) < 3000 {
					src.Palette = []int{64, 500, 4096}
				}
				if p.srcFail == 1 {
					src.FailAt = s.Choose(len(p.pt)+1, "srcfail.at")
					src.ErrWithData = s.Choose(2, "srcfail.withdata") == 0
					s.Fault("reader.error")
				}
				c := p.cipher
				er, err := enc.Encrypt(src, enc.EncryptOptions{WrapKeyFn: v.Wrap, Algorithm: enc.KeyAlgorithmAES256KW, KeyName: p.key, Cipher: &c})
				if err != nil {
					p.encErr = err
					continue
				}
				var doc bytes.Buffer
				buf := make([]byte, 32768)
				for {
					var n int
					var rerr error
					s.Block("read.enc", func() { n, rerr = er.Read(buf) })
					doc.Write(buf[:n])
					if rerr == io.EOF {
						break
					}
					if rerr != nil {
						p.encErr = rerr
						break
					}
				}
				if p.encErr != nil {
					continue
				}
				s.Yield("between")
				if p.tamper {
					b := doc.Bytes()
					b[len(b)-1-s.Choose(16, "tamperpos")] ^= 0x40 // inside the last segment / its tag
					s.Fault("document.tamper")
				}
				dsrc := &simio.Reader{C: s, Data: doc.Bytes(), FailAt: -1, Palette: []int{100, 512, 70000}}
				if p.srcFail == 2 {
					// anywhere after the first byte: in the header, at its end, inside or between segments
					dsrc.FailAt = 1 + s.Choose(doc.Len(), "srcfail.at")
					dsrc.ErrWithData = s.Choose(2, "srcfail.withdata") == 0
					s.Fault("reader.error")
				}
				dr, err := enc.Decrypt(dsrc, enc.DecryptOptions{UnwrapKeyFn: v.Unwrapper(p.key)})
				if err != nil {
					p.decErr = err
					continue
				}
				for {
					var n int
					var rerr error
					s.Block("read.dec", func() { n, rerr = dr.Read(buf) })
					p.out = append(p.out, buf[:n]...)
					if rerr != nil {
						p.endErr = rerr
						break
					}
				}
				p.done = true
			}
		})
	}
	if fam&1 != 0 && s.Choose(2, "scribbler") == 0 {
		names = append(names, "scribbler")
		s.Go("scribbler", func() {
			for i, n := 0, 2+s.Choose(6, "scribbles"); i < n; i++ {
				b := simrt.PoolGet(&enc.BufPool).(*[]byte)
				for j := range *b {
					(*b)[j] = marker
				}
				s.Yield("scribble")
				simrt.PoolPut(&enc.BufPool, b)
				s.Yield("scribbled")
				s.Fault("pool.scribble")
			}
		})
	}
	// logger registry (process-wide: names are unique per run so that an execution behaves the
	// same whether it is the first or the thousandth of its worker process, also when a tape is re-executed)
	lname := fmt.Sprintf("verif.c08.%d.", runs) // never seen before in this process, like in a fresh one
	var logA, logB []logger.Logger
	for i := 0; i < 2 && fam&2 != 0; i++ {
		name := fmt.Sprintf("log%d", i)
		names = append(names, name)
		s.Go(name, func() {
			for j := 0; j < 2; j++ {
				a := logger.NewLogger(lname + "a")
				s.Yield("logger")
				b := logger.NewLogger(lname + "b")
				logA, logB = append(logA, a), append(logB, b)
			}
		})
	}
	// cron parsers: the package's default one (ParseStandard) and parsers of the clients' own, with
	// optional fields (those take the "fill in the default" paths); every result is compared with the
	// same parse done alone before any concurrency
	type parseFn func(string) (cron.Schedule, error)
	type parserKind struct {
		name  string
		mk    func() parseFn
		specs []string
	}
	kinds := []parserKind{
		{"ParseStandard", func() parseFn { return cron.ParseStandard }, []string{"*/5 * * * *", "0 12 * * 1-5", "@hourly", "15,45 3 1 * *", "TZ=Asia/Tokyo 0 5 * * *", "CRON_TZ=America/New_York 0 5 * * *", "TZ=Europe/Lisbon 30 4 * * *"}},
		{"optional-second parser", func() parseFn {
			return cron.NewParser(cron.SecondOptional | cron.Minute | cron.Hour | cron.Dom | cron.Month | cron.Dow | cron.Descriptor).Parse
		}, []string{"*/7 * * * *", "30 */7 * * * *", "1 2 3 4 *", "5 4 3 2 1 *", "@daily"}},
		{"optional-weekday parser", func() parseFn {
			return cron.NewParser(cron.Minute | cron.Hour | cron.Dom | cron.Month | cron.DowOptional).Parse
		}, []string{"10 11 12 1", "20 21 22 2 3", "*/9 * * *"}},
		{"seconds parser", func() parseFn {
			return cron.NewParser(cron.Second | cron.Minute | cron.Hour | cron.Dom | cron.Month | cron.Dow).Parse
		}, []string{"*/11 * * * * *", "1 2 3 4 5 *"}},
	}
	t0 := time.Date(2024, 2, 28, 23, 58, 0, 0, time.UTC)
	solo := map[string]time.Time{}
	for _, k := range kinds {
		parse := k.mk()
		for _, sp := range k.specs {
			sc, err := parse(sp)
			if err != nil {
				s.Fail("infra-cron", k.name+": "+err.Error())
				return
			}
			solo[k.name+"|"+sp] = sc.Next(t0)
		}
	}
	for i := 0; i < 3 && fam&4 != 0; i++ {
		name := fmt.Sprintf("cron%d", i)
		names = append(names, name)
		s.Go(name, func() {
			k := kinds[s.Choose(len(kinds), "parserkind")]
			parse := k.mk() // this client's own parser object
			for j := 0; j < 3; j++ {
				sp := k.specs[s.Choose(len(k.specs), "spec")]
				s.Yield("cron")
				sc, err := parse(sp)
				if err != nil || !sc.Next(t0).Equal(solo[k.name+"|"+sp]) {
					var got time.Time
					if err == nil {
						got = sc.Next(t0)
					}
					s.Fail("cron-parser-interference", fmt.Sprintf("%s: Parse(%q) gave err=%v next=%v concurrently, next=%v alone", k.name, sp, err, got, solo[k.name+"|"+sp]))
				}
			}
		})
	}
	// byte-slice pools: one private pool per client, plus one pool shared by all clients (each slice
	// handed out by Get belongs to one caller until it is Put back)
	shared := byteslicepool.NewByteSlicePool(8)
	for i := 0; i < 3 && fam&8 != 0; i++ {
		i := i
		name := fmt.Sprintf("bsp%d", i)
		names = append(names, name)
		s.Go(name, func() {
			own := byteslicepool.NewByteSlicePool(16)
			for j := 0; j < 5; j++ {
				pool := own
				if j > 0 {
					pool = shared
				}
				b := pool.Get(8)
				if len(b) != 0 {
					s.Fail("pooled-slice-not-empty", fmt.Sprintf("ByteSlicePool.Get returned a slice of length %d", len(b)))
				}
				for _, x := range b[:cap(b)] {
					if x != 0 {
						s.Fail("pooled-slice-dirty", "ByteSlicePool.Get returned a slice carrying a previous user's bytes")
						break
					}
				}
				orig := b
				if s.Choose(2, "bsp.grow") == 0 {
					b = pool.Resize(b, cap(b)+24) // grows: the result is a new array, orig stays the caller's
				} else {
					b = pool.Resize(b, cap(b)-1) // stays within the capacity: same array
				}
				id := byte(0x41 + i)
				for k := range b {
					b[k] = id
				}
				s.Yield("bsp")
				for _, x := range b {
					if x != id {
						s.Fail("pooled-slice-shared", fmt.Sprintf("client %d: a slice obtained from the pool was overwritten by another client while it was still in use", i))
						break
					}
				}
				s.Yield("bsp.put")
				if &orig[:1][0] != &b[:1][0] {
					pool.Put(orig)
				}
				// callers hand a slice back the way they last used it: full, emptied (b[:0]) or cut short
				switch s.Choose(4, "bsp.putlen") {
				case 0:
					b = b[:0]
				case 1:
					b = b[:len(b)/2]
				}
				pool.Put(b)
			}
		})
	}
	if !s.Join(time.Hour, names...) {
		s.Fail("hang", "concurrent operations did not finish\n"+s.Dump())
		return
	}
	for _, p := range ps {
		if bytes.IndexByte(p.out, marker) >= 0 {
			s.Fail("foreign-bytes-in-result", fmt.Sprintf("pipeline %d: the decrypted stream contains bytes written by another user of the shared buffer pool", p.id))
		}
		if p.tamper {
			// alone, this pipeline fails (corrupted segment) after releasing at most a prefix
			if p.encErr != nil || (p.decErr == nil && (p.endErr == nil || p.endErr == io.EOF)) || !bytes.HasPrefix(p.pt, p.out) {
				s.Fail("pipeline-differs-from-solo", fmt.Sprintf("pipeline %d (%d bytes, corrupted document): alone it fails with a decryption error; run concurrently it gave encErr=%v decErr=%v end=%v and %d bytes", p.id, len(p.pt), p.encErr, p.decErr, p.endErr, len(p.out)))
			}
			continue
		}
		if p.srcFail != 0 {
			var got error
			switch {
			case p.srcFail == 1:
				got = p.encErr
			case p.decErr != nil:
				got = p.decErr
			default:
				got = p.endErr
			}
			if got == nil || got == io.EOF || (p.srcFail == 2 && p.encErr != nil) || !bytes.HasPrefix(p.pt, p.out) {
				s.Fail("pipeline-differs-from-solo", fmt.Sprintf("pipeline %d (%d bytes, source of side %d fails): alone it fails (the source's error, or an invalid-header error when the source fails inside the header) after releasing at most a prefix; run concurrently it gave encErr=%v decErr=%v end=%v and %d bytes", p.id, len(p.pt), p.srcFail, p.encErr, p.decErr, p.endErr, len(p.out)))
			}
			continue
		}
		if p.encErr != nil || p.decErr != nil || !p.done || p.endErr != io.EOF || !bytes.Equal(p.out, p.pt) {
			s.Fail("pipeline-differs-from-solo", fmt.Sprintf("pipeline %d (%d bytes, %s): alone it round-trips; run concurrently it gave encErr=%v decErr=%v end=%v and %d bytes", p.id, len(p.pt), p.cipher, p.encErr, p.decErr, p.endErr, len(p.out)))
		}
	}
	for _, l := range logA {
		if l != logA[0] {
			s.Fail("logger-registry", "the same logger name returned two instances")
		}
	}
	for _, l := range logB {
		if l != logB[0] || l == logA[0] {
			s.Fail("logger-registry", "logger names are mixed up")
		}
	}
}

func TestWorker(t *testing.T) {
	common.Main(t, common.Harness{ID: "C08", NoDelays: true, MaxSteps: 400000, SeedCrypto: true, Body: body})
}
