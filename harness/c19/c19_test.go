// C19 — SPIFFE: readiness never deadlocks; latest good SVID served, renewed at half-life.
package c19

import (
	"testing"
	"time"

	"verif/harness/common"
	"verif/harness/spiffebody"
	"verif/simrt"
)

func TestWorker(t *testing.T) {
	common.Main(t, common.Harness{
		ID:           "C19",
		SeedCrypto:   true,
		DelayPalette: []time.Duration{100 * time.Millisecond, time.Second},
		MaxDelay:     spiffebody.MaxInjected,
		Body:         func(s *simrt.Sim, tier string) { spiffebody.Body(s, tier, spiffebody.Options{}) },
	})
}
