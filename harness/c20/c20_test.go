// C20 — context.Pool: done exactly when all members are done (or Cancel), never earlier.
package c20

import (
	"context"
	"fmt"
	"testing"
	"time"

	kitctx "github.com/dapr/kit/context"

	"verif/harness/common"
	"verif/simrt"
)

type member struct {
	id         int
	ctx        context.Context
	cancel     context.CancelFunc
	background bool
	preEnded   bool   // already cancelled when offered
	cancelInv  uint64 // stamp when the harness began cancelling it (0 = still live)
	sure       bool   // certainly a member per the statement
	maybe      bool   // possibly a member
}

// probeCtx lets the harness see the instant Add takes a context in: the pool evaluates ctx.Done() exactly there.
type probeCtx struct {
	context.Context
	hook func()
}

func (c probeCtx) Done() <-chan struct{} {
	if c.hook != nil {
		c.hook()
	}
	return c.Context.Done()
}

type op struct {
	kind int // 0 cancel member, 1 add, 2 size, 3 pool.Cancel, 4 yield/sleep
	m    *member
}

func body(s *simrt.Sim, tier string) {
	var members []*member
	mk := func(kind int) *member {
		m := &member{id: len(members)}
		switch kind {
		case 0, 1, 2: // live
			m.ctx, m.cancel = context.WithCancel(context.Background())
		case 3: // already ended
			m.ctx, m.cancel = context.WithCancel(context.Background())
			m.cancel()
			m.preEnded = true
			m.cancelInv = 1
		case 4: // never ends
			m.ctx, m.cancel = context.Background(), func() {}
			m.background = true
		}
		members = append(members, m)
		return m
	}
	ninit := s.Choose(5, "ninit")
	var initial []context.Context
	for i := 0; i < ninit; i++ {
		k := s.Choose(5, "initkind")
		if k == 4 && s.Choose(3, "bg?") != 0 {
			k = 0
		}
		m := mk(k)
		if !m.preEnded {
			m.sure, m.maybe = true, true
		}
		initial = append(initial, m.ctx)
	}
	nclients := 2 + s.Choose(2, "clients")
	var plans [][]op
	for c := 0; c < nclients; c++ {
		n := 1 + s.Choose(5, "nops")
		var l []op
		for j := 0; j < n; j++ {
			switch k := s.Choose(12, "op"); {
			case k < 5:
				l = append(l, op{kind: 0}) // which member: decided at run time among live ones
			case k < 9:
				kk := s.Choose(5, "addkind")
				if kk == 4 && s.Choose(3, "bg?") != 0 {
					kk = 0
				}
				l = append(l, op{kind: 1, m: mk(kk)})
			case k < 11:
				l = append(l, op{kind: 2})
			default:
				if s.Choose(3, "cancel?") == 0 {
					l = append(l, op{kind: 3})
				} else {
					l = append(l, op{kind: 4})
				}
			}
		}
		plans = append(plans, l)
	}

	var cancelInv, cancelRet uint64
	initLive := 0
	for _, m := range members[:ninit] {
		if !m.preEnded {
			initLive++
		}
	}
	p := kitctx.NewPool(initial...)

	check := func(where string) {
		if p.Err() == nil || cancelInv != 0 {
			return
		}
		for _, m := range members {
			if m.sure && m.cancelInv == 0 {
				s.Fail("done-too-early", fmt.Sprintf("%s: pool is done although member %d (initial=%v) has not ended and Cancel was not called", where, m.id, m.id < ninit))
			}
		}
	}
	anyLiveSure := func() bool {
		for _, m := range members {
			if m.sure && m.cancelInv == 0 {
				return true
			}
		}
		return false
	}
	var names []string
	type addRec struct {
		m        *member
		inv, ret uint64
		rejected bool // surely rejected
		accepted bool // surely accepted
	}
	var addRecs []*addRec
	for c, l := range plans {
		l := l
		name := fmt.Sprintf("c%d", c)
		names = append(names, name)
		s.Go(name, func() {
			for _, o := range l {
				switch o.kind {
				case 0:
					var live []*member
					for _, m := range members {
						if m.cancelInv == 0 && !m.background && (m.maybe || m.sure) {
							live = append(live, m)
						}
					}
					if len(live) == 0 {
						continue
					}
					m := live[s.Choose(len(live), "which")]
					m.cancelInv = s.Stamp()
					s.Logf("end m%d", m.id)
					m.cancel()
					s.Yield("cancel.ret")
				case 1:
					r := &addRec{m: o.m, inv: s.Stamp()}
					doneAtInvoke := p.Err() != nil
					cancelledBefore := cancelRet != 0
					addRecs = append(addRecs, r)
					s.Logf("add m%d", o.m.id)
					o.m.maybe = !doneAtInvoke && !cancelledBefore
					var offered context.Context = o.m.ctx
					sureWhenTakenIn := false
					if s.Choose(2, "probe") == 0 {
						// "added while the pool was still live and some member was still live", judged at the very
						// instant Add asks the offered context for its Done channel (not only at Add's return, by when
						// the last other member may have ended)
						offered = probeCtx{Context: o.m.ctx, hook: func() {
							if p.Err() == nil && cancelInv == 0 && anyLiveSure() {
								sureWhenTakenIn = true
							}
						}}
					}
					p.Add(offered)
					if sureWhenTakenIn {
						o.m.sure = true
					}
					// no yield between Add's return and these observations
					if p.Err() == nil && cancelInv == 0 {
						r.accepted = true
						if anyLiveSure() {
							o.m.sure = true
						}
					}
					r.rejected = doneAtInvoke || cancelledBefore
					r.ret = s.Stamp()
					s.Yield("add.ret")
				case 2:
					inv := s.Stamp()
					n := p.Size()
					ret := s.Stamp()
					lo, hi := initLive, initLive
					for _, r := range addRecs {
						if r.accepted && r.ret != 0 && r.ret < inv {
							lo++
						}
						if !r.rejected && r.inv < ret {
							hi++
						}
					}
					if cancelRet != 0 && cancelRet < inv {
						if n != 0 {
							s.Fail("size-after-cancel", fmt.Sprintf("Size()=%d after Cancel returned", n))
						}
					} else if cancelInv != 0 {
						if n > hi {
							s.Fail("size", fmt.Sprintf("Size()=%d, at most %d members can be tracked", n, hi))
						}
					} else if n < lo || n > hi {
						s.Fail("size", fmt.Sprintf("Size()=%d, tracked members must be within [%d,%d]", n, lo, hi))
					}
					s.Logf("size %d", n)
				case 3:
					if cancelInv == 0 {
						cancelInv = s.Stamp()
					}
					s.Logf("Cancel")
					p.Cancel()
					if cancelRet == 0 {
						cancelRet = s.Stamp()
					}
					s.Yield("pcancel.ret")
				case 4:
					s.Sleep(time.Millisecond)
				}
				check(name)
			}
		})
	}
	// (in half of the runs nobody ever asks for the Done channel: the pool is then watched through Err() alone)
	withObserver := s.Choose(2, "observer") == 0
	if withObserver {
		s.Go("observer", func() {
			s.Block("pool.done", func() { <-p.Done() })
			check("observer")
		})
	}
	if !s.Join(time.Hour, names...) {
		s.Fail("hang", "pool operations did not return\n"+s.Dump())
		return
	}
	check("main")
	// end every member that can end; then the pool must become done
	needCancel := false
	for _, m := range members {
		if m.background && m.maybe && cancelInv == 0 {
			needCancel = true
		}
		if m.cancelInv == 0 && !m.background {
			m.cancelInv = s.Stamp()
			m.cancel()
		}
	}
	if needCancel {
		s.Go("finalcancel", func() {
			cancelInv = s.Stamp()
			p.Cancel()
			cancelRet = s.Stamp()
		})
		if !s.Join(time.Hour, "finalcancel") {
			s.Fail("hang", "Cancel did not return\n"+s.Dump())
			return
		}
	}
	if !s.WaitUntil("pool.done", time.Hour, func() bool { return p.Err() != nil }) {
		s.Fail("never-done", "every member ended (or Cancel returned) but the pool context is not done\n"+s.Dump())
		return
	}
	if withObserver && !s.Join(time.Hour, "observer") {
		s.Fail("hang", "observer stuck")
		return
	}
	if !s.WaitNoLive("", time.Hour) {
		s.Fail("watcher-alive", fmt.Sprintf("pool is done but its watcher goroutine is still alive: %v", s.Live("")))
	}
	if cancelRet != 0 && p.Size() != 0 {
		s.Fail("size-after-cancel", fmt.Sprintf("Size()=%d after Cancel returned", p.Size()))
	}
	// offered after the pool ended: ignored
	before := p.Size()
	late, lc := context.WithCancel(context.Background())
	defer lc()
	s.Go("lateadd", func() { p.Add(late) })
	s.Join(time.Hour, "lateadd")
	if p.Size() != before {
		s.Fail("add-after-done", fmt.Sprintf("Size went from %d to %d by an Add after the pool ended", before, p.Size()))
	}
}

func TestWorker(t *testing.T) {
	common.Main(t, common.Harness{ID: "C20", NoDelays: true, Body: body})
}
