// C12 — runner/closer managers: cancel on first return, closers last, joined errors.
package c12

import (
	"context"
	"errors"
	"fmt"
	"sort"
	"strings"
	"testing"
	"time"

	"github.com/dapr/kit/concurrency"

	"verif/harness/common"
	"verif/harness/stublog"
	"verif/simrt"
)

const maxInjected = 1500 * time.Microsecond

type unit struct {
	id       int
	closer   bool
	ctype    int           // closer type 0 io.Closer, 1 func(ctx) error, 2 func() error, 3 func()
	mode     int           // runner: 0 return at once, 1 return after delay, 2 block until cancelled
	delay    time.Duration // time before returning (after cancellation for mode 2)
	result   int           // 0 nil, 1 own error, 2 context.Canceled, 3 ctx.Err() (mode 2); closers: 5 context.Canceled, 6 wrapped Canceled
	err      error
	starts   int
	started  uint64
	returned uint64
	ctxDone  uint64
	ctxErr   error // result 3: what ctx.Err() was when the runner returned it (Canceled, or DeadlineExceeded under a caller's deadline)
	waitFor  func() bool // closer: having done its own work, it waits for a worker of the application to finish
}

type closerObj struct{ f func() error }

func (c closerObj) Close() error { return c.f() }

var delays = []time.Duration{0, time.Millisecond, 5 * time.Millisecond, 50 * time.Millisecond}

func mkUnit(s *simrt.Sim, id int, closer bool) *unit {
	u := &unit{id: id, closer: closer}
	u.err = fmt.Errorf("E%d", id)
	if closer {
		u.ctype = s.Choose(4, "ctype")
		u.mode = 1
		u.delay = delays[s.Choose(len(delays), "cdelay")]
		// a closer's error is reported whatever it is: also context.Canceled, bare or wrapped (only runners are filtered)
		u.result = []int{0, 1, 0, 1, 5, 6}[s.Choose(6, "cresult")]
		if u.ctype == 3 {
			u.result = 0
		}
		return u
	}
	u.mode = s.Choose(3, "rmode")
	u.delay = delays[s.Choose(len(delays), "rdelay")]
	u.result = s.Choose(3, "rresult")
	if u.mode == 2 {
		u.result = s.Choose(4, "rresult2")
	}
	return u
}

func (u *unit) runner(s *simrt.Sim) concurrency.Runner {
	return func(ctx context.Context) error {
		u.starts++
		u.started = s.Stamp()
		s.Logf("runner %d start", u.id)
		switch u.mode {
		case 1:
			s.Sleep(u.delay)
		case 2:
			s.Block("runner.wait", func() { <-ctx.Done() })
			u.ctxDone = s.Stamp()
			s.Sleep(u.delay)
		}
		s.Yield("runner.ret")
		u.returned = s.Stamp()
		s.Logf("runner %d return", u.id)
		switch u.result {
		case 1:
			return u.err
		case 2:
			return context.Canceled
		case 3:
			u.ctxErr = ctx.Err()
			return u.ctxErr
		}
		return nil
	}
}

// parentCtx draws the context handed to Run: Background, one the harness cancels, or one with a deadline of
// the caller's own (its expiry ends the run like a cancel; a runner passing ctx.Err() on then returns
// context.DeadlineExceeded, which is not Canceled and is reported - and nothing else is).
func parentCtx(s *simrt.Sim) (context.Context, context.CancelFunc, bool) {
	switch s.Choose(4, "parentctx") {
	case 1:
		ctx, cancel := context.WithTimeout(context.Background(), []time.Duration{0, 500 * time.Microsecond, 3 * time.Millisecond, 20 * time.Millisecond, 100 * time.Millisecond}[s.Choose(5, "deadline")])
		s.Fault("parent.deadline")
		return ctx, cancel, true
	default:
		ctx, cancel := context.WithCancel(context.Background())
		return ctx, cancel, false
	}
}

func (u *unit) closerAny(s *simrt.Sim) any {
	f := func() error {
		u.starts++
		u.started = s.Stamp()
		s.Logf("closer %d start", u.id)
		s.Sleep(u.delay)
		if u.waitFor != nil {
			s.WaitUntil("closer.waits-for-worker", 0, u.waitFor)
		}
		u.returned = s.Stamp()
		s.Logf("closer %d return", u.id)
		switch u.result {
		case 1:
			return u.err
		case 5:
			return context.Canceled
		case 6:
			return fmt.Errorf("closer %d: %w", u.id, context.Canceled)
		}
		return nil
	}
	switch u.ctype {
	case 0:
		return closerObj{f}
	case 1:
		return func(context.Context) error { return f() }
	case 2:
		return f
	}
	return func() { f() }
}

// flatten a joined error into the sorted list of its leaf messages
func leaves(err error) []string {
	var out []string
	var walk func(e error)
	walk = func(e error) {
		if e == nil {
			return
		}
		if j, ok := e.(interface{ Unwrap() []error }); ok {
			for _, x := range j.Unwrap() {
				walk(x)
			}
			return
		}
		out = append(out, e.Error())
	}
	walk(err)
	sort.Strings(out)
	return out
}

func expected(us []*unit) []string {
	var out []string
	for _, u := range us {
		if u.starts > 0 && u.result == 1 {
			out = append(out, u.err.Error())
		}
		if u.starts > 0 && u.closer && u.result == 5 {
			out = append(out, context.Canceled.Error())
		}
		if u.starts > 0 && u.closer && u.result == 6 {
			out = append(out, fmt.Sprintf("closer %d: %s", u.id, context.Canceled.Error()))
		}
		// result 3 (ctx.Err()): context.Canceled is dropped for runners; the caller's own deadline is an error like any other
		if u.starts > 0 && !u.closer && u.result == 3 && u.ctxErr != nil && !errors.Is(u.ctxErr, context.Canceled) {
			out = append(out, u.ctxErr.Error())
		}
	}
	sort.Strings(out)
	return out
}

func runnerManager(s *simrt.Sim) {
	var units []*unit
	for i, n := 0, s.Choose(5, "nrunners"); i < n; i++ {
		units = append(units, mkUnit(s, i, false))
	}
	var rs []concurrency.Runner
	for _, u := range units {
		rs = append(rs, u.runner(s))
	}
	m := concurrency.NewRunnerManager(rs...)
	var runInv, runRet uint64
	var runErr error
	parent, cancelParent, _ := parentCtx(s)
	defer cancelParent()
	var names []string
	// Adds before / racing / after Run
	type addRec struct {
		u        *unit
		inv, ret uint64
		err      error
	}
	var adds []*addRec
	for i, n := 0, s.Choose(3, "nadds"); i < n; i++ {
		u := mkUnit(s, 10+i, false)
		a := &addRec{u: u}
		adds = append(adds, a)
		when := s.Choose(3, "addwhen")
		name := fmt.Sprintf("add%d", i)
		names = append(names, name)
		s.Go(name, func() {
			if when == 2 {
				s.Sleep(delays[1+s.Choose(3, "addAt")])
			}
			a.inv = s.Stamp()
			a.err = m.Add(u.runner(s))
			s.Yield("add.ret")
			a.ret = s.Stamp()
			s.Logf("add %d -> %v", u.id, a.err)
		})
	}
	s.Go("run", func() {
		s.Yield("run.start")
		runInv = s.Stamp()
		runErr = m.Run(parent)
		s.Yield("run.ret")
		runRet = s.Stamp()
	})
	names = append(names, "run")
	if s.Choose(4, "cancelParent") == 0 {
		names = append(names, "pcancel")
		s.Go("pcancel", func() {
			s.Sleep(delays[s.Choose(len(delays), "pcAt")])
			cancelParent()
			s.Fault("parent.cancel")
		})
	}
	allBlock := len(units) > 0
	for _, u := range units {
		if u.mode != 2 {
			allBlock = false
		}
	}
	if !s.Join(10*time.Second, names...) {
		// nobody returns on its own and the parent is live: cancel it (Run must then finish)
		if allBlock || len(units) == 0 {
			cancelParent()
			if s.Join(10*time.Second, names...) {
				goto joined
			}
		}
		acc := ""
		for _, a := range adds {
			if a.ret != 0 && a.err == nil && a.u.starts == 0 {
				acc = fmt.Sprintf(" (runner %d was accepted by Add but never started)", a.u.id)
			}
		}
		s.Fail("run-hang", "RunnerManager.Run did not return"+acc+"\n"+s.Dump())
		return
	}
joined:
	all := append([]*unit(nil), units...)
	for _, a := range adds {
		if a.err == nil {
			all = append(all, a.u)
			if a.u.starts == 0 {
				s.Fail("accepted-runner-not-started", fmt.Sprintf("Add returned nil for runner %d but Run never started it", a.u.id))
			}
		} else {
			if !errors.Is(a.err, concurrency.ErrManagerAlreadyStarted) {
				s.Fail("add-error", fmt.Sprintf("Add returned %v", a.err))
			}
			if a.ret < runInv {
				s.Fail("add-rejected-before-run", "Add was rejected although Run had not been called yet")
			}
			if a.u.starts > 0 {
				s.Fail("rejected-runner-started", fmt.Sprintf("Add rejected runner %d but it was started", a.u.id))
			}
		}
		if a.err == nil && a.inv > runRet && runRet != 0 {
			s.Fail("add-after-run-accepted", "Add after Run returned was accepted")
		}
	}
	for _, u := range all {
		if u.starts > 1 {
			s.Fail("runner-started-twice", fmt.Sprintf("runner %d started %d times", u.id, u.starts))
		}
		if u.starts == 1 && (u.returned == 0 || u.returned > runRet) {
			s.Fail("run-returned-early", fmt.Sprintf("Run returned before runner %d did", u.id))
		}
	}
	for _, u := range units {
		if u.starts == 0 {
			s.Fail("runner-not-started", fmt.Sprintf("runner %d was never started", u.id))
		}
	}
	if got, want := leaves(runErr), expected(all); strings.Join(got, ";") != strings.Join(want, ";") {
		s.Fail("wrong-error", fmt.Sprintf("Run returned %v, expected the join of %v", got, want))
	}
	// a manager runs at most once
	var err2, err3 error
	s.Go("again", func() {
		err2 = m.Run(context.Background())
		err3 = m.Add(func(context.Context) error { return nil })
	})
	if !s.Join(10*time.Second, "again") {
		s.Fail("second-run-hang", "second Run / late Add did not return\n"+s.Dump())
		return
	}
	if !errors.Is(err2, concurrency.ErrManagerAlreadyStarted) {
		s.Fail("second-run", fmt.Sprintf("second Run returned %v", err2))
	}
	if !errors.Is(err3, concurrency.ErrManagerAlreadyStarted) {
		s.Fail("late-add", fmt.Sprintf("Add after Run returned %v", err3))
	}
}

func closerManager(s *simrt.Sim) {
	var runners, closers []*unit
	for i, n := 0, s.Choose(5, "nrunners"); i < n; i++ {
		runners = append(runners, mkUnit(s, i, false))
	}
	for i, n := 0, s.Choose(5, "nclosers"); i < n; i++ {
		closers = append(closers, mkUnit(s, 20+i, true))
	}
	var grace *time.Duration
	switch s.Choose(4, "grace") {
	case 1:
		g := time.Second
		grace = &g
	case 2:
		g := 3 * time.Millisecond
		grace = &g
	case 3:
		g := time.Duration(0) // a grace period of zero is a grace period: exceeded by any closer that takes time
		grace = &g
	}
	var rs []concurrency.Runner
	for _, u := range runners {
		rs = append(rs, u.runner(s))
	}
	m := concurrency.NewRunnerCloserManager(stublog.Log{}, grace, rs...)
	fatal := 0
	m.WithFatalShutdown(func() { fatal++; s.Logf("FATAL") })
	for _, u := range closers {
		if err := m.AddCloser(u.closerAny(s)); err != nil {
			s.Fail("addcloser", err.Error())
		}
	}
	// Add on the closer manager: before Run it must be accepted and the runner started
	var extra *unit
	if s.Choose(3, "extraRunner") == 0 {
		extra = mkUnit(s, 9, false)
		if err := m.Add(extra.runner(s)); err != nil {
			s.Fail("add-before-run", fmt.Sprintf("Add before Run returned %v", err))
		}
		runners = append(runners, extra)
	}
	scenario := s.Choose(5, "scenario") // 0 run to completion, 1 Close during run, 2 Close before Run, 3 two Closes during, 4 AddCloser during
	var runInv, runRet uint64
	var runErr error
	ran := false
	type closeRec struct {
		inv, ret uint64
		err      error
	}
	var closes []*closeRec
	var names []string
	doClose := func(name string, at time.Duration) {
		c := &closeRec{}
		closes = append(closes, c)
		names = append(names, name)
		s.Go(name, func() {
			s.Sleep(at)
			c.inv = s.Stamp()
			s.Logf("%s invoked", name)
			c.err = m.Close()
			s.Yield("close.ret")
			c.ret = s.Stamp()
		})
	}
	var late []*unit
	var lateErr []error
	closerWaits := false
	if scenario == 2 {
		doClose("close0", 0)
		if !s.Join(10*time.Second, "close0") {
			s.Fail("close-before-run-hang", "Close on a manager that never ran did not return\n"+s.Dump())
			return
		}
		if closes[0].err != nil {
			s.Fail("close-before-run-error", fmt.Sprintf("Close before Run returned %v", closes[0].err))
		}
	}
	parent, cancelParent, _ := parentCtx(s)
	defer cancelParent()
	s.Go("run", func() {
		runInv = s.Stamp()
		runErr = m.Run(parent)
		s.Yield("run.ret")
		runRet = s.Stamp()
	})
	names = append(names, "run")
	if s.Choose(6, "cancelParentOfCloserManager") == 0 {
		names = append(names, "pcancel")
		s.Go("pcancel", func() {
			s.Sleep(delays[s.Choose(len(delays), "pcAt")])
			cancelParent()
			s.Fault("parent.cancel")
		})
	}
	// an Add that races Run: either it is refused, or the runner is started and waited for like every other
	// (and Close still ends the run)
	var racer *unit
	var racerErr error
	if scenario != 2 && s.Choose(3, "addrace") == 0 {
		racer = mkUnit(s, 10, false)
		at := []time.Duration{0, 0, delays[1]}[s.Choose(3, "addraceAt")]
		names = append(names, "addrace")
		s.Go("addrace", func() {
			s.Sleep(at)
			racerErr = m.Add(racer.runner(s))
			s.Logf("add racing Run -> %v", racerErr)
		})
	}
	// a second Run while the first is under way (runners running, or closers running): refused, and at once -
	// it has nothing to wait for
	var run2Err error
	var run2Took time.Duration
	run2 := scenario != 2 && len(runners)+len(closers) > 0 && s.Choose(3, "run2") == 0
	if run2 {
		names = append(names, "run2")
		s.Go("run2", func() {
			s.WaitUntil("first-run-under-way", 0, func() bool {
				for _, u := range append(append([]*unit(nil), runners...), closers...) {
					if u.starts > 0 {
						return true
					}
				}
				return runRet != 0
			})
			s.Sleep(delays[s.Choose(len(delays), "run2At")])
			t0 := time.Now()
			run2Err = m.Run(context.Background())
			run2Took = time.Since(t0)
		})
	}
	switch scenario {
	case 1:
		doClose("close1", delays[s.Choose(len(delays), "closeAt")])
	case 3:
		doClose("close1", delays[s.Choose(len(delays), "closeAt")])
		doClose("close2", delays[s.Choose(len(delays), "closeAt2")])
	case 4:
		nlate := 1 + s.Choose(2, "nlate")
		lateDone := make([]bool, nlate)
		if len(closers) > 0 && s.Choose(2, "closerWaitsForWorker") == 0 {
			// an ordinary closer: it stops a worker goroutine of the application and waits for it - and that worker
			// is the one registering closers while the manager runs
			closerWaits = true
			closers[0].waitFor = func() bool { return lateDone[0] }
		}
		for i, n := 0, nlate; i < n; i++ {
			u := mkUnit(s, 40+i, true)
			late = append(late, u)
			lateErr = append(lateErr, nil)
			i := i
			defer func() { lateDone[i] = true }() // (never leave a closer waiting once the run is judged)
			name := fmt.Sprintf("addcloser%d", i)
			names = append(names, name)
			at := delays[s.Choose(len(delays), "lateAt")]
			s.Go(name, func() {
				s.Sleep(at)
				lateErr[i] = m.AddCloser(u.closerAny(s))
				s.Logf("addcloser %d -> %v", u.id, lateErr[i])
				if lateErr[i] != nil {
					u.starts = -1 // rejected
				}
				lateDone[i] = true
			})
		}
		doClose("close1", 60*time.Millisecond)
	case 0:
		// Run ends by itself only if some runner returns on its own; otherwise close later
		doClose("close1", 200*time.Millisecond)
	}
	if !s.Join(10*time.Second, names...) {
		s.Fail("hang", "Run / Close did not return\n"+s.Dump())
		return
	}
	if scenario != 2 && errors.Is(runErr, concurrency.ErrManagerAlreadyStarted) {
		// a Close got in before Run: same as closing a manager that never ran
		early := false
		for _, c := range closes {
			if c.inv != 0 && c.inv < runRet {
				early = true
			}
		}
		if !early {
			s.Fail("run-refused", "the first Run was refused although no Close preceded it")
		}
		scenario = 2
	}
	if scenario == 2 {
		if !errors.Is(runErr, concurrency.ErrManagerAlreadyStarted) {
			s.Fail("run-after-close", fmt.Sprintf("Run after Close returned %v, want ErrManagerAlreadyStarted", runErr))
		}
		for _, u := range append(runners, closers...) {
			if u.starts != 0 {
				s.Fail("started-after-close", fmt.Sprintf("unit %d started although the manager was closed before Run", u.id))
			}
		}
		return
	}
	ran = true
	_, _ = ran, runInv
	if run2 {
		if !errors.Is(run2Err, concurrency.ErrManagerAlreadyStarted) {
			s.Fail("second-run", fmt.Sprintf("a second Run during the first returned %v", run2Err))
		} else if run2Took > maxInjected {
			s.Fail("second-run-blocked", fmt.Sprintf("a second Run during the first was refused only after %v: it waited for the first one's shutdown", run2Took))
		}
	}
	if racer != nil {
		switch {
		case racerErr == nil:
			runners = append(runners, racer) // accepted: it is one of the manager's runners
		case !errors.Is(racerErr, concurrency.ErrManagerAlreadyStarted):
			s.Fail("add-error", fmt.Sprintf("Add racing Run returned %v", racerErr))
		case racer.starts != 0:
			s.Fail("rejected-runner-started", "Add racing Run was refused but the runner was started")
		}
	}
	var lastRunner uint64
	for _, u := range runners {
		if u.starts != 1 {
			s.Fail("runner-not-started-once", fmt.Sprintf("runner %d started %d times", u.id, u.starts))
			continue
		}
		if u.returned > lastRunner {
			lastRunner = u.returned
		}
	}
	allClosers := append([]*unit(nil), closers...)
	for i, u := range late {
		if lateErr[i] == nil {
			allClosers = append(allClosers, u)
		} else if !errors.Is(lateErr[i], concurrency.ErrManagerAlreadyClosed) {
			s.Fail("addcloser-error", fmt.Sprintf("AddCloser returned %v", lateErr[i]))
		} else if u.starts > 0 {
			s.Fail("rejected-closer-invoked", fmt.Sprintf("closer %d was rejected but invoked", u.id))
		}
	}
	var maxCloser time.Duration
	for _, u := range allClosers {
		if u.starts != 1 {
			s.Fail("closer-not-once", fmt.Sprintf("closer %d (registered successfully) was invoked %d times", u.id, u.starts))
			continue
		}
		if u.started < lastRunner {
			s.Fail("closer-before-runners", fmt.Sprintf("closer %d started before the last runner returned", u.id))
		}
		if u.returned == 0 || u.returned > runRet {
			s.Fail("run-returned-before-closer", fmt.Sprintf("Run returned before closer %d finished", u.id))
		}
		for _, c := range closes {
			if u.returned == 0 || u.returned > c.ret {
				s.Fail("close-returned-before-closer", fmt.Sprintf("Close returned before closer %d finished", u.id))
			}
		}
		if u.delay > maxCloser {
			maxCloser = u.delay
		}
	}
	want := expected(append(append([]*unit(nil), runners...), allClosers...))
	if got := leaves(runErr); strings.Join(got, ";") != strings.Join(want, ";") {
		s.Fail("wrong-error", fmt.Sprintf("Run returned %v, expected the join of %v", got, want))
	}
	for i, c := range closes {
		if got := leaves(c.err); strings.Join(got, ";") != strings.Join(want, ";") {
			s.Fail("wrong-close-error", fmt.Sprintf("Close #%d returned %v, Run returned %v", i, got, want))
		}
	}
	if grace != nil {
		if !closerWaits {
			if maxCloser > *grace+maxInjected && fatal == 0 {
				s.Fail("fatal-missing", fmt.Sprintf("closers took %v, grace period %v, but the fatal-shutdown action did not fire", maxCloser, *grace))
			}
			if maxCloser+maxInjected < *grace && fatal > 0 {
				s.Fail("fatal-spurious", fmt.Sprintf("closers took %v, grace period %v, but the fatal-shutdown action fired", maxCloser, *grace))
			}
			if fatal > 1 {
				s.Fail("fatal-twice", "fatal-shutdown action fired more than once")
			}
		}
	} else if fatal > 0 {
		s.Fail("fatal-spurious", "fatal-shutdown fired without a grace period")
	}
	// afterwards: Close again returns the same error at once; Run and Add are refused
	var c2 error
	var r2, a2 error
	s.Go("again", func() {
		c2 = m.Close()
		r2 = m.Run(context.Background())
		a2 = m.Add(func(context.Context) error { return nil })
	})
	if !s.Join(10*time.Second, "again") {
		s.Fail("late-close-hang", "Close after shutdown did not return\n"+s.Dump())
		return
	}
	if got := leaves(c2); strings.Join(got, ";") != strings.Join(want, ";") {
		s.Fail("wrong-close-error", fmt.Sprintf("late Close returned %v, expected %v", got, want))
	}
	if !errors.Is(r2, concurrency.ErrManagerAlreadyStarted) {
		s.Fail("second-run", fmt.Sprintf("second Run returned %v", r2))
	}
	if !errors.Is(a2, concurrency.ErrManagerAlreadyStarted) {
		s.Fail("late-add", fmt.Sprintf("Add after the manager ran returned %v", a2))
	}
	s.WaitNoLive("", time.Second)
}

func body(s *simrt.Sim, tier string) {
	if s.Choose(3, "manager") == 0 {
		runnerManager(s)
	} else {
		closerManager(s)
	}
}

func TestWorker(t *testing.T) {
	common.Main(t, common.Harness{
		ID:           "C12",
		DelayPalette: []time.Duration{100 * time.Microsecond, 500 * time.Microsecond},
		MaxDelay:     maxInjected,
		Body:         body,
	})
}
