// C11 — Broadcaster: every value once to every subscriber, one common order, no deadlock.
package c11

import (
	"context"
	"fmt"
	"sync/atomic"
	"testing"
	"time"

	"github.com/dapr/kit/events/broadcaster"

	"verif/harness/common"
	"verif/simrt"
)

type sub struct {
	id         int
	mode       int // 0 prompt, 1 slow, 2 stalled until resume
	willCancel bool
	cancelAt   time.Duration
	joinAt     time.Duration
	ctx        context.Context
	cancel     context.CancelFunc
	ch         chan int
	leader     *sub   // set for the further channels of one Subscribe(ctx, ch1, ch2, ...) call
	members    []*sub // on the leader: the other channels of its call

	subInvoke, subReturn uint64
	got                  []int
	stop                 atomic.Bool
}

type bcall struct {
	val      int
	inv, ret uint64
}

type bop struct {
	sleep time.Duration
	call  *bcall
}

var sleeps = []time.Duration{time.Millisecond, 2 * time.Millisecond, 5 * time.Millisecond, 10 * time.Millisecond}

func body(s *simrt.Sim, tier string) {
	flood := s.Choose(3, "flood") == 0
	closeRace := s.Choose(4, "closeRace") == 0
	nsubs := 1 + s.Choose(4, "nsubs")
	var subs []*sub
	for i := 0; i < nsubs; i++ {
		sb := &sub{id: i, ch: make(chan int)}
		sb.mode = s.Choose(3, "submode")
		if flood && i == 0 {
			sb.mode = 2
		}
		sb.willCancel = s.Choose(3, "cancel?") == 0
		sb.cancelAt = sleeps[s.Choose(len(sleeps), "cancelAt")]
		if flood && i == 0 {
			sb.willCancel = s.Choose(4, "cancel0?") != 0
			sb.cancelAt = 20 * time.Millisecond
		}
		if s.Choose(3, "late?") == 0 && !(flood && i == 0) {
			sb.joinAt = sleeps[s.Choose(len(sleeps), "joinAt")]
		}
		sb.ctx, sb.cancel = context.WithCancel(context.Background())
		subs = append(subs, sb)
	}
	// some subscribers arrive together, as several channels of one Subscribe call under one context
	if nsubs >= 2 && s.Choose(3, "batch") == 0 {
		k := 2
		if nsubs >= 3 {
			k += s.Choose(2, "batchsize")
		}
		if first := nsubs - k; !(flood && first == 0) {
			ld := subs[first]
			for _, m := range subs[first+1:] {
				m.leader, m.joinAt, m.willCancel, m.cancelAt = ld, ld.joinAt, ld.willCancel, ld.cancelAt
				m.ctx, m.cancel = ld.ctx, ld.cancel
				ld.members = append(ld.members, m)
			}
		}
	}
	nb := 1 + s.Choose(3, "nbroadcasters")
	var calls []*bcall
	var bops [][]bop
	nval := 0
	for j := 0; j < nb; j++ {
		var l []bop
		n := 1 + s.Choose(5, "nbops")
		if flood && j == 0 {
			n = 12 + s.Choose(6, "floodn")
		}
		for k := 0; k < n; k++ {
			if !(flood && j == 0) && s.Choose(4, "bsleep?") == 0 {
				l = append(l, bop{sleep: sleeps[s.Choose(len(sleeps), "bsleep")]})
				continue
			}
			nval++
			c := &bcall{val: nval}
			calls = append(calls, c)
			l = append(l, bop{call: c})
		}
		bops = append(bops, l)
	}

	// With at most 10 values in all, every subscriber's 10-slot buffer can hold whatever it does not read:
	// in such runs stalled readers may stay stalled for good ("hard stall") and still no Broadcast,
	// cancellation or Close may wait for them.
	// With more values than that a Broadcast may come to wait for a reader that is stalled for good - until Close,
	// which at any moment releases it and returns (bigHard).
	hardStall := s.Choose(2, "hardstall") == 0
	bigHard := hardStall && nval > 10
	// a stalled reader whose context ends has left: half of the time it never reads again
	deadAfterCancel := s.Choose(2, "deadAfterCancel") == 0

	b := broadcaster.New[int]()
	var resume atomic.Bool
	var closeInvoke, closeReturn atomic.Uint64
	var afterClose atomic.Int64

	var subNames, workNames []string
	for _, sb := range subs {
		sb := sb
		name := fmt.Sprintf("sub%d", sb.id)
		subNames = append(subNames, name)
		s.Go(name, func() {
			if sb.joinAt > 0 {
				s.Sleep(sb.joinAt)
			}
			if sb.leader != nil {
				s.WaitUntil("batch", 0, func() bool { return sb.leader.subReturn != 0 })
				sb.subInvoke, sb.subReturn = sb.leader.subInvoke, sb.leader.subReturn
			} else {
				chs := []chan<- int{sb.ch}
				for _, m := range sb.members {
					chs = append(chs, m.ch)
				}
				sb.subInvoke = s.Stamp()
				s.Logf("subscribe s%d mode %d (+%d channels)", sb.id, sb.mode, len(sb.members))
				b.Subscribe(sb.ctx, chs...)
				s.Yield("sub.ret")
				sb.subReturn = s.Stamp()
			}
			if sb.mode == 2 {
				s.WaitUntil("stalled", 0, func() bool { return resume.Load() || sb.stop.Load() })
				if sb.willCancel && deadAfterCancel {
					return
				}
			}
			for !sb.stop.Load() {
				if sb.willCancel && deadAfterCancel && sb.ctx.Err() != nil {
					// its context has ended: this subscriber has left and does not come back to its channel,
					// whatever it had read before
					return
				}
				var v int
				got := false
				// the broadcaster never closes subscriber channels: poll with a timeout
				tm := time.NewTimer(500 * time.Millisecond)
				s.Block("recv", func() {
					select {
					case v = <-sb.ch:
						got = true
						if closeReturn.Load() != 0 {
							afterClose.Store(int64(v))
						}
					case <-tm.C:
					}
				})
				tm.Stop()
				if !got {
					continue
				}
				sb.got = append(sb.got, v)
				s.Logf("s%d got %d", sb.id, v)
				if sb.mode == 1 && !resume.Load() {
					s.Sleep(time.Millisecond)
				}
			}
		})
		if sb.willCancel && sb.leader == nil {
			cn := fmt.Sprintf("cancel%d", sb.id)
			workNames = append(workNames, cn)
			s.Go(cn, func() {
				s.Sleep(sb.cancelAt)
				s.Logf("cancel s%d", sb.id)
				sb.cancel()
				s.Fault("subscriber.cancel")
				s.Yield("cancel.ret")
			})
		}
	}
	for j, l := range bops {
		l := l
		name := fmt.Sprintf("b%d", j)
		workNames = append(workNames, name)
		s.Go(name, func() {
			for _, o := range l {
				if o.call == nil {
					s.Sleep(o.sleep)
					continue
				}
				c := o.call
				c.inv = s.Stamp()
				s.Logf("broadcast %d", c.val)
				b.Broadcast(c.val)
				s.Yield("bc.ret")
				c.ret = s.Stamp()
			}
		})
	}
	// every Close call, also one overlapping another, returns only when nothing more will be delivered:
	// the first return sets closeReturn, and any receive after that is a violation
	doClose := func() {
		if closeInvoke.Load() == 0 {
			closeInvoke.Store(s.Stamp())
		}
		s.Logf("close")
		b.Close()
		closeReturn.CompareAndSwap(0, s.Stamp())
		s.Yield("close.ret")
	}
	if closeRace {
		workNames = append(workNames, "closer")
		at := sleeps[s.Choose(len(sleeps), "closeAt")]
		s.Go("closer", func() {
			s.Sleep(at)
			doClose()
		})
		if s.Choose(2, "closer2") == 0 {
			workNames = append(workNames, "closer2")
			at2 := sleeps[s.Choose(len(sleeps), "closeAt2")]
			s.Go("closer2", func() {
				s.Sleep(at2)
				doClose()
			})
		}
	}
	joined := s.Join(100*time.Millisecond, workNames...)
	if !joined {
		if bigHard && !closeRace {
			// Broadcasts wait for the reader that is stalled for good: the Close below must release them
			s.Probe("broadcast-blocked-until-close")
		} else if bigHard {
			s.Fail("deadlock", "a live subscriber is stalled for good with more than 10 values outstanding: Close must return all the same and release the Broadcast that waits for that subscriber; Broadcast / Close / cancel did not return\n"+s.Dump())
			return
		} else if hardStall {
			s.Fail("deadlock", "Broadcast / Close / cancel did not return although no subscriber ever had more than 10 values outstanding (stalled readers must not be waited for)\n"+s.Dump())
			return
		}
	}
	if !hardStall && !joined {
		resume.Store(true)
		s.Fault("subscriber.stall")
		if !s.Join(20*time.Second, workNames...) {
			s.Fail("deadlock", "Broadcast / Close / cancel did not return although every stalled subscriber resumed reading or was cancelled\n"+s.Dump())
			return
		}
	}
	if !hardStall {
		resume.Store(true)
	} else {
		s.Fault("subscriber.hardstall")
	}
	s.Sleep(2 * time.Second) // drain

	// ---- oracles
	valCall := map[int]*bcall{}
	for _, c := range calls {
		valCall[c.val] = c
	}
	for _, sb := range subs {
		seen := map[int]int{}
		pos := map[int]int{}
		for i, v := range sb.got {
			seen[v]++
			pos[v] = i
			if seen[v] > 1 {
				s.Fail("delivered-twice", fmt.Sprintf("subscriber %d received value %d %d times", sb.id, v, seen[v]))
			}
		}
		// real-time order of Broadcast calls
		for _, x := range calls {
			for _, y := range calls {
				if x.ret != 0 && y.inv != 0 && x.ret < y.inv && seen[x.val] > 0 && seen[y.val] > 0 && pos[y.val] < pos[x.val] {
					s.Fail("order-vs-calls", fmt.Sprintf("subscriber %d received %d before %d although Broadcast(%d) returned before Broadcast(%d) was called", sb.id, y.val, x.val, x.val, y.val))
				}
			}
		}
		if sb.willCancel || sb.subReturn == 0 || closeRace || (hardStall && sb.mode == 2) {
			continue
		}
		for _, c := range calls {
			if c.ret != 0 && sb.subReturn < c.inv && seen[c.val] == 0 {
				s.Fail("not-delivered", fmt.Sprintf("subscriber %d (subscribed before the call, never cancelled, reading) never received value %d\n%s", sb.id, c.val, s.Dump()))
			}
		}
		// gap-free: once a value of a call is received, every later-invoked call's value (w.r.t. real time) is too — covered by not-delivered for full subscribers
	}
	for _, a := range subs {
		idx := map[int]int{}
		for i, v := range a.got {
			idx[v] = i
		}
		for _, o := range subs {
			last := -1
			for _, v := range o.got {
				if i, ok := idx[v]; ok {
					if i < last {
						s.Fail("order-differs", fmt.Sprintf("subscribers %d and %d saw common values in different orders: %v vs %v", a.id, o.id, a.got, o.got))
					}
					last = i
				}
			}
		}
	}
	if s.Failed() {
		return
	}
	if !closeRace {
		s.Go("closer", doClose)
		s.Go("closer2", doClose)
		if !s.Join(20*time.Second, "closer", "closer2") {
			s.Fail("close-deadlock", fmt.Sprintf("Close did not return (hard stall: %v; otherwise no subscriber is stalled any more)\n", hardStall)+s.Dump())
			return
		}
		if !s.Join(20*time.Second, workNames...) {
			s.Fail("deadlock", "Close returned but a Broadcast that was waiting for a stalled subscriber did not\n"+s.Dump())
			return
		}
	}
	// after Close: Broadcast and Subscribe are no-ops and return
	s.Go("late", func() {
		b.Broadcast(9999)
		ctx, cancel := context.WithCancel(context.Background())
		defer cancel()
		b.Subscribe(ctx, make(chan int))
	})
	if !s.Join(20*time.Second, "late") {
		s.Fail("deadlock-after-close", "Broadcast/Subscribe after Close did not return\n"+s.Dump())
		return
	}
	s.Sleep(2 * time.Second)
	for _, sb := range subs {
		sb.stop.Store(true)
	}
	s.Join(20*time.Second, subNames...)
	if v := afterClose.Load(); v != 0 {
		s.Fail("recv-after-close", fmt.Sprintf("value %d was delivered after Close had returned", v))
	}
	if l := s.Live(""); len(l) > 0 {
		s.Fail("goroutines-alive-after-close", fmt.Sprintf("broadcaster goroutines alive after Close: %v", l))
	}
}

func TestWorker(t *testing.T) {
	common.Main(t, common.Harness{
		ID:           "C11",
		DelayPalette: []time.Duration{500 * time.Microsecond, time.Millisecond, 3 * time.Millisecond},
		MaxDelay:     6 * time.Millisecond,
		Body:         body,
	})
}
