// Package enccommon holds what the enc/v1 harnesses (C01, C02, C08) share: plaintext and
// chunking generators, the key-vault stub, and document producers.
package enccommon

import (
	"bytes"
	"crypto/rand"
	"encoding/json"
	"errors"
	"fmt"
	"io"

	enc "github.com/dapr/kit/schemes/enc/v1"

	"verif/refmodels/refenc"
	"verif/simio"
	"verif/simrt"
)

// Lengths around segment boundaries.
var Lengths = []int{0, 1, 2, 100, 65535, 65536, 65537, 131071, 131072, 131073}

// Plaintext draws a length and fills it with a position-dependent pattern (so that any
// misplaced byte is visible).
func Plaintext(s *simrt.Sim, maxSegs int) []byte {
	var n int
	switch k := s.Choose(10, "ptlen"); {
	case k < 6:
		n = Lengths[s.Choose(len(Lengths), "ptboundary")]
	case k < 9:
		n = s.Choose(3000, "ptsmall")
	default:
		n = s.Choose(maxSegs*65536, "ptrandom")
	}
	salt := byte(s.Choose(251, "ptsalt"))
	b := make([]byte, n)
	for i := range b {
		b[i] = byte(i*7+i/251) ^ salt
	}
	return b
}

// Chunking configures a simulated reader for data of the given size.
func Chunking(s *simrt.Sim, r *simio.Reader) {
	// the reader is driven by a goroutine of the code under test: it gets a private decision
	// stream (one tape entry) so that it never races the consumer for the tape
	r.C = simio.NewSub(uint64(s.Choose(1<<30, "substream")))
	size := len(r.Data)
	switch s.Choose(5, "chunkstyle") {
	case 0:
		if size <= 3000 {
			r.MaxChunk = 1
		} else {
			r.Palette = []int{4095, 4096, 4097}
		}
	case 1:
		if size <= 20000 {
			r.MaxChunk = 7
		} else {
			r.Palette = []int{511, 512, 1000, 65535}
		}
	case 2:
		r.Palette = []int{65535, 65536, 65537, 65551, 65552, 65553, 1}
	case 3:
		r.Palette = []int{100, 4096, 32768, 65536 + 16, 65536 + 17, 200000}
	}
	r.EOFWithData = s.Choose(2, "eofwithdata") == 0
	r.ZeroReads = size <= 70000 && s.Choose(3, "zeroreads") == 0
}

// ReadAllChunked consumes r with buffer sizes drawn per call; it returns what was read and
// the terminal error (io.EOF for a clean end).
func ReadAllChunked(s *simrt.Sim, r io.Reader) ([]byte, error) {
	var palette []int
	switch s.Choose(5, "consumerstyle") {
	case 4:
		// io.Copy: takes the stream's WriteTo if it has one, else reads with its own 32 KiB buffer; its nil is
		// the clean end of the stream
		var b bytes.Buffer
		_, err := io.Copy(&b, r)
		if err == nil {
			err = io.EOF
		}
		return b.Bytes(), err
	case 0:
		palette = []int{1, 2, 3, 7}
	case 1:
		palette = []int{512, 4096}
	case 2:
		palette = []int{65535, 65536, 65537, 65552, 65553}
	default:
		palette = []int{1 << 20}
	}
	var out []byte
	small := palette[0] < 16
	for i := 0; ; i++ {
		sz := palette[s.Choose(len(palette), "consumerbuf")]
		if small && len(out) > 4000 {
			sz = 8192 // do not crawl through a big stream one byte at a time
		}
		buf := make([]byte, sz)
		n, err := r.Read(buf)
		out = append(out, buf[:n]...)
		if err != nil {
			return out, err
		}
		if i > 5_000_000 {
			return out, errors.New("consumer: stream never ended")
		}
	}
}

// Vault is the key-vault stub behind WrapKeyFn / UnwrapKeyFn: wrapping is a keyed
// byte-wise transformation, so the harness can recover the file key, and every call is recorded.
type Vault struct {
	S            *simrt.Sim
	WrapCalls    []VaultCall
	UnwrapCalls  []VaultCall
	UnwrapWrong  bool // return a different 32-byte key
	UnwrapShort  bool // return a short key
	UnwrapErr    bool // return an error
	UnwrapWiped  bool // return an error together with the output buffer, wiped (32 zero bytes)
	WrapAppend   int  // Wrap builds its result by appending this many bytes to the slice it was given (1..7)
	Pad          int  // extra bytes a wrapped key carries beyond the 32 key bytes (AES-KW: 8, RSA-OAEP: modulus size - 32)
	YieldInCalls bool // let the scheduler switch inside the callbacks (C08)
	Cached       bool // a vault client with a key cache: the same unwrapped-key slice is handed out on every call for that wrapped key
	cache        map[string][]byte
	FileKey      []byte
	WFK          []byte
}

type VaultCall struct {
	Algorithm, KeyName string
}

func mask(key string) byte {
	m := byte(0x5a)
	for i := 0; i < len(key); i++ {
		m = m*31 + key[i]
	}
	return m | 1
}

func (v *Vault) Wrap(plaintextKey []byte, algorithm, keyName string, nonce []byte) ([]byte, []byte, error) {
	v.WrapCalls = append(v.WrapCalls, VaultCall{algorithm, keyName})
	if v.YieldInCalls {
		v.S.Yield("vault.wrap")
	}
	v.FileKey = append([]byte(nil), plaintextKey...)
	if v.WrapAppend > 0 {
		// a wrapper that frames the key in place: append(key, checksum...) writes into whatever spare
		// capacity the slice it was handed has
		framed := plaintextKey
		for i := 0; i < v.WrapAppend; i++ {
			framed = append(framed, byte(0xc0+i))
		}
		_ = framed
	}
	w := make([]byte, len(plaintextKey))
	for i, b := range plaintextKey {
		w[i] = b ^ mask(keyName)
	}
	for i := 0; i < v.Pad; i++ {
		w = append(w, byte(0xa0+i%7))
	}
	v.WFK = w
	return w, nil, nil
}

// Unwrap inverts Wrap for the key name the *encrypting* side used (encKey), whatever name the
// caller passes: the harness checks the name separately.
func (v *Vault) Unwrapper(encKey string) enc.UnwrapKeyFn {
	return func(wrappedKey []byte, algorithm, keyName string, nonce, tag []byte) ([]byte, error) {
		v.UnwrapCalls = append(v.UnwrapCalls, VaultCall{algorithm, keyName})
		if v.YieldInCalls {
			for i, n := 0, 1+v.S.Choose(3, "unwrap.yields"); i < n; i++ {
				v.S.Yield("vault.unwrap")
			}
		}
		if v.UnwrapErr {
			return nil, errors.New("vault: key not found")
		}
		if v.UnwrapWiped {
			return make([]byte, 32), errors.New("vault: integrity check failed")
		}
		if len(wrappedKey) > 32 {
			wrappedKey = wrappedKey[:32] // the padding of a longer wrapping carries no key material
		}
		out := make([]byte, len(wrappedKey))
		for i, b := range wrappedKey {
			out[i] = b ^ mask(encKey)
		}
		if v.Cached && !v.UnwrapWrong && !v.UnwrapShort {
			// the key store's own long-lived copy: whatever the callee does to it is seen by the next call
			if c, ok := v.cache[string(wrappedKey)]; ok {
				return c, nil
			}
			if v.cache == nil {
				v.cache = map[string][]byte{}
			}
			v.cache[string(wrappedKey)] = out
			return out, nil
		}
		if v.UnwrapWrong && len(out) > 0 {
			out[0] ^= 0x80
		}
		if v.UnwrapShort && len(out) > 3 {
			out = out[:len(out)-3]
		}
		return out, nil
	}
}

// Algorithms: the five ids and the two aliases, with the manifest id each must produce.
var Algorithms = []struct {
	Name      enc.KeyAlgorithm
	ID        int
	Canonical string
}{
	{enc.KeyAlgorithmAES256KW, 1, "A256KW"}, {enc.KeyAlgorithmAES128CBC, 2, "A128CBC-NOPAD"}, {enc.KeyAlgorithmAES192CBC, 3, "A192CBC-NOPAD"},
	{enc.KeyAlgorithmAES256CBC, 4, "A256CBC-NOPAD"}, {enc.KeyAlgorithmRSAOAEP256, 5, "RSA-OAEP-256"}, {enc.KeyAlgorithmAES, 1, "A256KW"}, {enc.KeyAlgorithmRSA, 5, "RSA-OAEP-256"},
}

// WrappedKeyPads are the sizes real wrappings add to a 32-byte file key: none (a bare stub), 8 (AES-KW),
// and what RSA-OAEP produces with 2048-, 3072-, 4096- and 8192-bit keys.
var WrappedKeyPads = []int{0, 8, 224, 352, 480, 992}

// RefDocument builds a document with the reference encoder. variant selects the JSON shape
// of the manifest (key order, presence of k).
func RefDocument(s *simrt.Sim, plaintext []byte, keyName string, kw, cph int, variant int) (doc, fk []byte, err error) {
	return RefDocumentPad(s, plaintext, keyName, kw, cph, variant, 0)
}

// RefDocumentPad is RefDocument with a wrapped file key of 32+pad bytes.
func RefDocumentPad(s *simrt.Sim, plaintext []byte, keyName string, kw, cph int, variant int, pad int) (doc, fk []byte, err error) {
	fk = make([]byte, 32)
	np := make([]byte, 7)
	rand.Read(fk)
	rand.Read(np)
	wfk := make([]byte, 32)
	for i, b := range fk {
		wfk[i] = b ^ mask(keyName)
	}
	for i := 0; i < pad; i++ {
		wfk = append(wfk, byte(0xa0+i%7))
	}
	wfkJ, _ := json.Marshal(wfk)
	npJ, _ := json.Marshal(np)
	kJ, _ := json.Marshal(keyName)
	var line string
	switch variant {
	case 0: // the kit's own order
		line = fmt.Sprintf(`{"k":%s,"kw":%d,"wfk":%s,"cph":%d,"np":%s}`, kJ, kw, wfkJ, cph, npJ)
	case 1: // another key order
		line = fmt.Sprintf(`{"np":%s,"cph":%d,"wfk":%s,"kw":%d,"k":%s}`, npJ, cph, wfkJ, kw, kJ)
	default: // no key name
		line = fmt.Sprintf(`{"cph":%d,"kw":%d,"np":%s,"wfk":%s}`, cph, kw, npJ, wfkJ)
	}
	doc, err = refenc.Encode(plaintext, fk, np, cph, []byte(line))
	return doc, fk, err
}
