// Package stublog is a complete no-op implementation of the kit's logger.Logger for the
// harnesses (complete, so that kit code may log through any method without upsetting a harness).
package stublog

import (
	"io"

	"github.com/dapr/kit/logger"
)

// Log discards everything. Fatal does not exit.
type Log struct{}

func (Log) EnableJSONOutput(bool)                     {}
func (Log) SetAppID(string)                           {}
func (Log) SetOutputLevel(logger.LogLevel)            {}
func (Log) SetOutput(io.Writer)                       {}
func (Log) IsOutputLevelEnabled(logger.LogLevel) bool { return true }
func (l Log) WithLogType(string) logger.Logger        { return l }
func (l Log) WithFields(map[string]any) logger.Logger { return l }
func (Log) Info(args ...interface{})                  {}
func (Log) Infof(format string, args ...interface{})  {}
func (Log) Debug(args ...interface{})                 {}
func (Log) Debugf(format string, args ...interface{}) {}
func (Log) Warn(args ...interface{})                  {}
func (Log) Warnf(format string, args ...interface{})  {}
func (Log) Error(args ...interface{})                 {}
func (Log) Errorf(format string, args ...interface{}) {}
func (Log) Fatal(args ...interface{})                 {}
func (Log) Fatalf(format string, args ...interface{}) {}

var _ logger.Logger = Log{}
