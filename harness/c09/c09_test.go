// C09 — coalescing rate limiter: no Add lost, bursts collapse, signals never exceed Adds.
package c09

import (
	"context"
	"fmt"
	"math"
	"sync"
	"sync/atomic"
	"testing"
	"time"

	"github.com/dapr/kit/events/ratelimiting"

	"verif/harness/common"
	"verif/simclock"
	"verif/simrt"
)

const maxInjected = 6 * time.Millisecond

type addRec struct {
	inv, ret         uint64
	invTime, retTime time.Time
}

type sigRec struct {
	stamp uint64
	at    time.Time
}

type aop struct {
	sleep time.Duration // 0 = Add
	burst int           // settled mode: number of Adds issued back to back before the limiter is left to settle
}

// model returns every signal timeline the statement allows for Adds at the given instants
// (sequential, settled). Ties between an Add and a window end branch both ways.
func model(adds []time.Duration, initial, max time.Duration, cap int) [][]time.Duration {
	type st struct {
		open    bool
		end     time.Duration
		cur     time.Duration
		pending int
		sig     []time.Duration
	}
	var out [][]time.Duration
	var rec func(i int, s st)
	expire := func(s st) st {
		if s.pending > 0 {
			s.sig = append(append([]time.Duration(nil), s.sig...), s.end)
		}
		s.open, s.pending, s.cur = false, 0, initial
		return s
	}
	rec = func(i int, s st) {
		if i == len(adds) {
			if s.open {
				s = expire(s)
			}
			out = append(out, s.sig)
			return
		}
		t := adds[i]
		if s.open && t > s.end {
			rec(i, expire(s))
			return
		}
		if s.open && t == s.end {
			rec(i, expire(s)) // timer first
			// fallthrough: Add first
		}
		if !s.open {
			s.open, s.end, s.cur, s.pending = true, t+initial, initial, 0
			s.sig = append(append([]time.Duration(nil), s.sig...), t)
			rec(i+1, s)
			return
		}
		s.pending++
		if cap > 0 && s.pending >= cap {
			s.pending = 0
			s.sig = append(append([]time.Duration(nil), s.sig...), t)
			rec(i+1, s)
			return
		}
		if s.cur < max {
			if s.cur > max/2 {
				s.cur = max
			} else {
				s.cur *= 2
			}
		}
		s.end = t + s.cur
		if s.end < t {
			s.end = math.MaxInt64 // beyond the end of time: the window stays open
		}
		rec(i+1, s)
	}
	rec(0, st{cur: initial})
	return out
}

func relAdds(a []*addRec, start time.Time) []time.Duration {
	var out []time.Duration
	for _, x := range a {
		out = append(out, x.invTime.Sub(start))
	}
	return out
}

func relSigs(g []sigRec, start time.Time) []time.Duration {
	var out []time.Duration
	for _, x := range g {
		out = append(out, x.at.Sub(start))
	}
	return out
}

func body(s *simrt.Sim, tier string) {
	initial := []time.Duration{10 * time.Millisecond, 20 * time.Millisecond}[s.Choose(2, "initial")]
	max := initial * time.Duration([]int{1, 2, 4, 8}[s.Choose(4, "maxmul")])
	capN := s.Choose(5, "cap") // 0 = unset
	settled := s.Choose(5, "settled") < 2
	bursts := settled && s.Choose(2, "bursts") == 0 // settled mode with bursts: necessary conditions instead of the exact timeline
	// "no upper bound": MaxDelay is the largest Duration, and a long busy period doubles the window until it
	// cannot double any more (InitialDelay <= MaxDelay holds for every such pair)
	unbounded := settled && !bursts && s.Choose(12, "unbounded") == 0
	if unbounded {
		max = []time.Duration{math.MaxInt64, math.MaxInt64 / 2, 1<<62 + 1}[s.Choose(3, "unbounded.max")]
	}
	palette := []time.Duration{initial / 4, initial / 2, initial - time.Millisecond, initial, initial + time.Millisecond, 2 * initial, 2*initial + time.Millisecond, 5 * initial}

	opts := ratelimiting.OptionsCoalescing{InitialDelay: &initial, MaxDelay: &max}
	if capN > 0 {
		opts.MaxPendingEvents = &capN
	}
	rl, err := ratelimiting.NewCoalescing(opts)
	if err != nil {
		s.Fail("new", err.Error())
		return
	}
	// one run in three uses a clock whose timers behave like pre-Go-1.23 / fake-clock timers (Stop reports false
	// once the timer has fired, the tick stays in the channel): the limiter has code for exactly that
	oldTimers := s.Choose(3, "oldtimers") == 0
	if oldTimers {
		rl.(ratelimiting.RateLimiterWithTicker).WithTicker(&simclock.SkewClock{})
	}
	nadders := 1
	if !settled {
		nadders = 1 + s.Choose(3, "adders")
	}
	var plans [][]aop
	for a := 0; a < nadders; a++ {
		n := 1 + s.Choose(6, "nops")
		var l []aop
		// a marathon: one busy period of some seventy Adds, each inside the window the previous one opened
		// (the window must double up to the maximum and then stay there, however long events keep arriving)
		marathon := settled && !bursts && (s.Choose(12, "marathon") == 0 || unbounded)
		if marathon {
			n = 0
			for k := 0; k < 66+s.Choose(8, "marathonlen"); k++ {
				l = append(l, aop{burst: 1}, aop{sleep: initial / 4})
			}
		}
		for k := 0; k < n; k++ {
			if s.Choose(5, "sleep?") < 2 {
				l = append(l, aop{sleep: palette[s.Choose(len(palette), "sleep")]})
			} else if bursts {
				l = append(l, aop{burst: 1 + s.Choose(4, "burst")})
			} else {
				l = append(l, aop{burst: 1})
			}
		}
		plans = append(plans, l)
	}
	slowConsumer := !settled && s.Choose(3, "slow") == 0
	// exact mode with a consumer that stops reading for a while: the limiter's own timeline must not depend on
	// the consumer (every signal that falls into the stall is received when it ends, none is lost or added)
	var stallFrom, stallEnd time.Duration
	if settled && !bursts && s.Choose(3, "consumerstall") == 0 {
		stallFrom = palette[s.Choose(len(palette), "stallFrom")] + 500*time.Microsecond
		stallEnd = stallFrom + []time.Duration{initial, 3 * initial, 9 * initial}[s.Choose(3, "stallFor")] + 250*time.Microsecond
	}
	term := s.Choose(4, "term") // 0 close at end, 1 cancel then close, 2 close racing, 3 cancel racing then close
	if settled {
		term = s.Choose(2, "term")
		s.DisableDelays()
	}

	ch := make(chan struct{})
	ctx, cancel := context.WithCancel(context.Background())
	defer cancel()
	var addsInvoked atomic.Int64
	var adds []*addRec
	var sigs []sigRec
	var stopConsumer, lateSignal atomic.Bool
	var runErr error
	var runReturned, closeReturned atomic.Uint64
	start := time.Now()

	// with a cancellation in the run (term 1, 3), half of the time the consumer leaves at that instant
	goneAfterCancel := (term == 1 || term == 3) && s.Choose(2, "goneAfterCancel") == 0
	var goneC <-chan struct{}
	if goneAfterCancel {
		goneC = ctx.Done()
	}
	// with a Close racing the Adds (term 2), one run in three the owner stops reading the moment it calls Close: the
	// signals still under way have nowhere to go, and Close returns all the same (its helpers end with it)
	goneAfterClose := term == 2 && !goneAfterCancel && s.Choose(3, "goneAfterClose") == 0
	closeCalled := make(chan struct{})
	var closeCalledOnce sync.Once
	if goneAfterClose {
		goneC = closeCalled
	}
	s.Go("runner", func() {
		runErr = rl.Run(ctx, ch)
		s.Yield("run.ret")
		runReturned.Store(s.Stamp())
	})
	s.Go("consumer", func() {
		for !stopConsumer.Load() {
			if goneAfterClose {
				select {
				case <-closeCalled:
					s.Fault("consumer.gone")
					return
				default:
				}
			}
			if goneAfterCancel && ctx.Err() != nil {
				// whoever cancelled the context is no longer interested in signals: nobody reads the channel
				// any more, and Run and Close return all the same
				s.Fault("consumer.gone")
				return
			}
			got := false
			tm := time.NewTimer(10 * time.Second)
			var stallC <-chan time.Time
			var stallTm *time.Timer
			if el := time.Since(start); stallEnd > 0 && el < stallFrom {
				stallTm = time.NewTimer(stallFrom - el)
				stallC = stallTm.C
			} else if stallEnd > 0 && el < stallEnd {
				s.Sleep(stallEnd - el)
			}
			var n int64
			stalled := false
			s.Block("recv", func() {
				select {
				case <-ch:
					got = true
					n = addsInvoked.Load()
					if closeReturned.Load() != 0 {
						lateSignal.Store(true)
					}
				case <-stallC:
					stalled = true
				case <-goneC:
				case <-tm.C:
				}
			})
			tm.Stop()
			if stallTm != nil {
				stallTm.Stop()
			}
			if stalled {
				s.Fault("consumer.stall")
				s.Sleep(stallEnd - time.Since(start))
				continue
			}
			if !got {
				continue
			}
			sigs = append(sigs, sigRec{s.Stamp(), time.Now()})
			s.Logf("signal #%d at %v", len(sigs), time.Since(start))
			if int64(len(sigs)) > n {
				s.Fail("more-signals-than-adds", fmt.Sprintf("signal #%d received when only %d Adds had been invoked", len(sigs), n))
			}
			if slowConsumer {
				s.Sleep(initial / 2)
			}
		}
	})
	var names []string
	for a, l := range plans {
		l := l
		name := fmt.Sprintf("adder%d", a)
		names = append(names, name)
		s.Go(name, func() {
			for _, o := range l {
				if o.sleep > 0 {
					s.Sleep(o.sleep)
					continue
				}
				for b := 0; b < o.burst; b++ {
					r := &addRec{inv: s.Stamp(), invTime: time.Now()}
					adds = append(adds, r)
					addsInvoked.Add(1)
					s.Logf("add at %v", time.Since(start))
					rl.Add()
					s.Yield("add.ret")
					r.ret, r.retTime = s.Stamp(), time.Now()
				}
				if settled {
					s.Sleep(time.Microsecond) // everyone else runs to quiescence
				}
			}
		})
	}
	racing := term >= 2
	closer := func() {
		s.Logf("close")
		before := s.Stamp()
		closeCalledOnce.Do(func() { close(closeCalled) })
		rl.Close()
		// helper goroutines of Adds that had been issued before this Close was called have finished as well
		if l := s.LiveBornBefore("coalescing.Add", before); len(l) > 0 {
			s.Fail("goroutines-alive-after-close", fmt.Sprintf("Close returned while helper goroutines of Adds issued before it were still alive: %v", l))
		}
		// at this very instant (no scheduling point since Close returned) no signal sender may be alive;
		// token goroutines of Adds issued after Close began are not Close's business
		if l := s.Live("fireEvent"); len(l) > 0 {
			s.Fail("goroutines-alive-after-close", fmt.Sprintf("Close returned while signal-sender goroutines were still alive: %v", l))
		}
		closeReturned.CompareAndSwap(0, s.Stamp()) // the first Close to return counts
		s.Yield("close.ret")
	}
	if racing {
		s.Go("terminator", func() {
			s.Sleep(palette[s.Choose(len(palette), "termAt")])
			if term == 3 {
				s.Logf("cancel")
				cancel()
				s.Fault("ctx.cancel")
				s.Sleep(palette[s.Choose(len(palette), "termAt2")])
			}
			s.Fault("close.racing")
			closer()
		})
		names = append(names, "terminator")
		if s.Choose(3, "terminator2") == 0 {
			s.Go("terminator2", func() {
				s.Sleep(palette[s.Choose(len(palette), "termAt3")])
				closer()
			})
			names = append(names, "terminator2")
		}
	}
	if !s.Join(time.Hour, names...) {
		s.Fail("hang", "Add / Close did not return\n"+s.Dump())
		return
	}
	if !racing {
		// settle with the limiter still running: every window ends
		if unbounded {
			s.Sleep(time.Minute) // the last window is open for the next centuries
		} else {
			s.Sleep(2*max + 50*time.Millisecond)
		}
		if el := time.Since(start); stallEnd > 0 && el < stallEnd+50*time.Millisecond {
			s.Sleep(stallEnd + 50*time.Millisecond - el) // ... and the consumer reads again
		}
		// no Add lost
		for i, a := range adds {
			if unbounded {
				break // (the exact timeline below says which signals are due by now)
			}
			covered := false
			for _, g := range sigs {
				if g.stamp > a.inv {
					covered = true
					if !slowConsumer && !settled && i == len(adds)-1 {
						// the earliest signal after the last Add must come within its window
					}
					break
				}
			}
			if !covered {
				s.Fail("add-lost", fmt.Sprintf("Add #%d (at %v) was never followed by a signal although the limiter kept running for %v afterwards (%d adds, %d signals)\n%s", i, a.invTime.Sub(start), time.Since(a.invTime), len(adds), len(sigs), s.Dump()))
			}
			// lateness: only for an Add whose quiet window nobody extended (no other Add inside it)
			extended := false
			for _, o := range adds {
				if o != a && o.inv > a.inv && !o.invTime.After(a.retTime.Add(max+maxInjected+time.Millisecond)) {
					extended = true
				}
			}
			if !slowConsumer && stallEnd == 0 && covered && !extended {
				for _, g := range sigs {
					if g.stamp > a.inv {
						if late := g.at.Sub(a.retTime); late > max+maxInjected+time.Millisecond {
							s.Fail("late-signal", fmt.Sprintf("first signal after Add #%d came %v after it returned although no later Add extended its window; MaxDelay is %v", i, late, max))
						}
						break
					}
				}
			}
		}
		if bursts && capN > 0 {
			// pending-events cap: when the Adds since the last signal reach the cap at some instant, a signal
			// is sent at that very instant (time stands still until the limiter has settled)
			byInstant := map[time.Duration]int{}
			var instants []time.Duration
			for _, a := range adds {
				d := a.invTime.Sub(start)
				if byInstant[d] == 0 {
					instants = append(instants, d)
				}
				byInstant[d]++
			}
			for _, ti := range instants {
				lastSig := time.Duration(-1)
				for _, g := range sigs {
					if d := g.at.Sub(start); d < ti && d > lastSig {
						lastSig = d
					}
				}
				pending := byInstant[ti]
				for _, tj := range instants {
					if tj > lastSig && tj < ti {
						pending += byInstant[tj]
					}
				}
				signalled := false
				for _, g := range sigs {
					if g.at.Sub(start) == ti {
						signalled = true
					}
				}
				if pending >= capN && !signalled {
					s.Fail("cap-not-honoured", fmt.Sprintf("initial=%v max=%v cap=%d: %d Adds were pending at %v (burst of %d) but no signal was sent at that instant; adds %v signals %v", initial, max, capN, pending, ti, byInstant[ti], relAdds(adds, start), relSigs(sigs, start)))
				}
			}
		}
		if settled && !bursts {
			var at []time.Duration
			for _, a := range adds {
				at = append(at, a.invTime.Sub(start))
			}
			var got []time.Duration
			for _, g := range sigs {
				got = append(got, g.at.Sub(start))
			}
			ok := false
			all := model(at, initial, max, capN)
			elapsed := time.Since(start)
			for _, want := range all {
				if unbounded {
					// only what is due by now
					var w2 []time.Duration
					for _, t := range want {
						if t <= elapsed {
							w2 = append(w2, t)
						}
					}
					want = w2
				}
				if stallEnd > 0 {
					// what falls into the consumer's stall is received at its end
					w2 := append([]time.Duration(nil), want...)
					for i, t := range w2 {
						if t >= stallFrom && t < stallEnd {
							w2[i] = stallEnd
						}
					}
					want = w2
				}
				if fmt.Sprint(want) == fmt.Sprint(got) {
					ok = true
				}
			}
			if !ok {
				s.Fail("timeline", fmt.Sprintf("initial=%v max=%v cap=%d adds at %v (consumer not reading from %v to %v): signals at %v, the statement allows %v", initial, max, capN, at, stallFrom, stallEnd, got, all))
			}
		}
		if s.Failed() {
			return
		}
		if term == 1 {
			s.Logf("cancel")
			cancel()
			s.Fault("ctx.cancel")
			if !s.WaitUntil("run.return", time.Hour, func() bool { return runReturned.Load() != 0 }) {
				s.Fail("run-hang", "Run did not return after its context was cancelled\n"+s.Dump())
				return
			}
		}
		s.Go("closer", closer)
		ok := true
		if s.Choose(3, "close2") == 0 {
			s.Go("closer2", closer) // a second, overlapping Close: it too returns only when the helpers are gone
			ok = s.Join(time.Hour, "closer2")
		}
		if !s.Join(time.Hour, "closer") || !ok {
			s.Fail("close-hang", "Close did not return\n"+s.Dump())
			return
		}
	}
	if !s.WaitUntil("run.return", time.Hour, func() bool { return runReturned.Load() != 0 }) {
		s.Fail("run-hang", "Run did not return after Close\n"+s.Dump())
		return
	}
	if runErr != nil {
		s.Fail("run-error", fmt.Sprintf("Run returned %v", runErr))
	}
	if racing {
		// Adds issued after Close spawn helpers that exit at once; give them their turn
		s.WaitNoLive("", time.Second)
	}
	if l := s.Live(""); len(l) > 0 {
		s.Fail("goroutines-alive-after-close", fmt.Sprintf("Close returned while helper goroutines were still alive: %v", l))
	}
	stopConsumer.Store(true)
	s.Sleep(11 * time.Second)
	if lateSignal.Load() {
		s.Fail("signal-after-close", "a signal was delivered on the event channel after Close had returned")
	}
	if int64(len(sigs)) > addsInvoked.Load() {
		s.Fail("more-signals-than-adds", fmt.Sprintf("%d signals for %d Adds", len(sigs), addsInvoked.Load()))
	}
}

func TestWorker(t *testing.T) {
	common.Main(t, common.Harness{
		ID:           "C09",
		DelayPalette: []time.Duration{500 * time.Microsecond, time.Millisecond, 3 * time.Millisecond},
		MaxDelay:     maxInjected,
		Body:         body,
	})
}
