package dbg

import (
	"fmt"
	"testing"
	"time"

	"github.com/dapr/kit/cron"

	"verif/harness/common"
	"verif/simrt"
)

func body(s *simrt.Sim, tier string) {
	t0 := time.Date(2024, 2, 28, 23, 58, 0, 0, time.UTC)
	specs := []string{"*/7 * * * *", "1 2 3 4 *"}
	mk := func() cron.Parser {
		return cron.NewParser(cron.SecondOptional | cron.Minute | cron.Hour | cron.Dom | cron.Month | cron.Dow | cron.Descriptor)
	}
	solo := map[string]time.Time{}
	for _, sp := range specs {
		sc, _ := mk().Parse(sp)
		solo[sp] = sc.Next(t0)
	}
	var names []string
	for i := 0; i < 2; i++ {
		i := i
		name := fmt.Sprintf("c%d", i)
		names = append(names, name)
		s.Go(name, func() {
			p := mk()
			for j := 0; j < 3; j++ {
				s.Yield("cron")
				sc, err := p.Parse(specs[i])
				if j == 0 && i == 0 {
					println("dbg", fmt.Sprintf("%+v", sc))
				}
				if err != nil || !sc.Next(t0).Equal(solo[specs[i]]) {
					s.Fail("interference", fmt.Sprintf("%v", err))
				}
			}
		})
	}
	s.Join(time.Hour, names...)
}

func TestWorker(t *testing.T) {
	common.Main(t, common.Harness{ID: "DBG", NoDelays: true, Body: body})
}
