// C02 — enc/v1: tampered or truncated documents never decrypt silently.
package c02

import (
	"bytes"
	"fmt"
	"io"
	"testing"

	enc "github.com/dapr/kit/schemes/enc/v1"

	"verif/harness/common"
	"verif/harness/enccommon"
	"verif/refmodels/refenc"
	"verif/simio"
	"verif/simrt"
)

const seg = refenc.SegSize + refenc.TagSize

type layout struct {
	header   int    // length of the three header lines
	line     [3]int // start offsets of the three lines
	segStart []int  // start offset of each segment
	segLen   []int
	total    int
}

func layoutOf(doc []byte) layout {
	var l layout
	off := 0
	for i := 0; i < 3; i++ {
		l.line[i] = off
		j := bytes.IndexByte(doc[off:], '\n')
		if j < 0 { // header incomplete (already mutated): the rest of the document is the last line
			off = len(doc)
			for k := i + 1; k < 3; k++ {
				l.line[k] = off
			}
			break
		}
		off += j + 1
	}
	l.header = off
	for off < len(doc) {
		n := seg
		if len(doc)-off < n {
			n = len(doc) - off
		}
		l.segStart = append(l.segStart, off)
		l.segLen = append(l.segLen, n)
		off += n
	}
	l.total = len(doc)
	return l
}

// mutate applies one mutation drawn from the tape and describes it.
func mutate(s *simrt.Sim, doc []byte, other []byte, otherSameKey []byte) ([]byte, string) {
	l := layoutOf(doc)
	d := append([]byte(nil), doc...)
	nseg := len(l.segStart)
	pick := func(lo, hi int, kind string) int { // position in [lo,hi)
		if hi <= lo {
			return lo
		}
		switch s.Choose(4, kind+".where") {
		case 0:
			return lo
		case 1:
			return hi - 1
		default:
			return lo + s.Choose(hi-lo, kind)
		}
	}
	switch k := s.Choose(12, "mutation"); {
	case k < 4: // bit flip by position class
		var pos int
		var cls string
		switch c := s.Choose(5, "flipclass"); {
		case c == 0:
			pos, cls = pick(l.line[0], l.line[1], "flip"), "scheme line"
		case c == 1:
			pos, cls = pick(l.line[1], l.line[2], "flip"), "manifest"
		case c == 2:
			pos, cls = pick(l.line[2], l.header, "flip"), "MAC line"
		case c == 3 && nseg > 0:
			i := s.Choose(nseg, "flipseg")
			pos, cls = pick(l.segStart[i], l.segStart[i]+l.segLen[i]-refenc.TagSize, "flip"), fmt.Sprintf("body of segment %d", i)
		case nseg > 0:
			i := s.Choose(nseg, "flipseg")
			pos, cls = pick(l.segStart[i]+l.segLen[i]-refenc.TagSize, l.segStart[i]+l.segLen[i], "flip"), fmt.Sprintf("tag of segment %d", i)
		default:
			pos, cls = pick(l.line[1], l.line[2], "flip"), "manifest"
		}
		bit := byte(1) << s.Choose(8, "bit")
		if pos >= len(d) {
			pos = len(d) - 1
		}
		d[pos] ^= bit
		return d, fmt.Sprintf("flip bit %#x at offset %d (%s)", bit, pos, cls)
	case k < 7: // truncation
		var at int
		switch c := s.Choose(4, "truncclass"); {
		case c == 0:
			at = s.Choose(l.header+1, "trunc")
		case c == 1 && nseg > 0:
			i := s.Choose(nseg, "truncseg")
			at = l.segStart[i] + l.segLen[i] - 20 + s.Choose(41, "truncoff")
		case c == 2 && nseg > 0:
			i := s.Choose(nseg, "truncseg")
			at = l.segStart[i] - 20 + s.Choose(41, "truncoff")
		default:
			at = s.Choose(l.total+1, "trunc")
		}
		if at < 0 {
			at = 0
		}
		if at >= l.total {
			at = l.total - 1
		}
		return d[:at], fmt.Sprintf("truncate to %d of %d bytes (header %d)", at, l.total, l.header)
	case k < 10 && nseg > 0: // segment surgery
		i := s.Choose(nseg, "segidx")
		segBytes := func(j int) []byte { return doc[l.segStart[j] : l.segStart[j]+l.segLen[j]] }
		switch s.Choose(6, "segop") {
		case 0:
			return append(append([]byte(nil), doc[:l.segStart[i]]...), doc[l.segStart[i]+l.segLen[i]:]...), fmt.Sprintf("delete segment %d of %d", i, nseg)
		case 1:
			out := append([]byte(nil), doc[:l.segStart[i]+l.segLen[i]]...)
			out = append(out, segBytes(i)...)
			return append(out, doc[l.segStart[i]+l.segLen[i]:]...), fmt.Sprintf("duplicate segment %d of %d", i, nseg)
		case 2:
			if i+1 < nseg {
				out := append([]byte(nil), doc[:l.segStart[i]]...)
				out = append(out, segBytes(i+1)...)
				out = append(out, segBytes(i)...)
				return append(out, doc[l.segStart[i+1]+l.segLen[i+1]:]...), fmt.Sprintf("swap segments %d and %d", i, i+1)
			}
			fallthrough
		case 3:
			extra := make([]byte, []int{1, 15, 16, 17, 100, seg}[s.Choose(6, "appendlen")])
			for j := range extra {
				extra[j] = byte(j * 13)
			}
			return append(d, extra...), fmt.Sprintf("append %d garbage bytes", len(extra))
		case 4:
			cut := 1 + s.Choose(20, "shorten")
			if cut >= l.segLen[nseg-1] {
				cut = l.segLen[nseg-1] - 1
			}
			return d[:l.total-cut], fmt.Sprintf("shorten the last segment by %d bytes", cut)
		default:
			// splice the same-position segment of another document
			src, what := other, "a document under a different key"
			if s.Choose(2, "splicekey") == 0 {
				src, what = otherSameKey, "a document under the same key with another nonce prefix"
			}
			lo := layoutOf(src)
			if i < len(lo.segStart) {
				out := append([]byte(nil), doc[:l.segStart[i]]...)
				out = append(out, src[lo.segStart[i]:lo.segStart[i]+lo.segLen[i]]...)
				return append(out, doc[l.segStart[i]+l.segLen[i]:]...), fmt.Sprintf("replace segment %d by segment %d of %s", i, i, what)
			}
			return append(d, src[lo.header:]...), "append the payload of " + what
		}
	default: // insert a byte
		pos := s.Choose(l.total+1, "insert")
		out := append([]byte(nil), doc[:pos]...)
		out = append(out, byte(s.Choose(256, "insertbyte")))
		return append(out, doc[pos:]...), fmt.Sprintf("insert a byte at offset %d", pos)
	}
}

func first(b []byte) byte {
	if len(b) == 0 {
		return 0
	}
	return b[0]
}

func body(s *simrt.Sim, tier string) {
	maxSegs := 2
	if tier == "thorough" {
		maxSegs = 3
	}
	pt := enccommon.Plaintext(s, maxSegs)
	cph := 1 + s.Choose(2, "cipher")
	kw := 1 + s.Choose(5, "kw")
	doc, _, err := enccommon.RefDocument(s, pt, "key1", kw, cph, s.Choose(2, "variant"))
	if err != nil {
		s.Fail("infra-refencode", err.Error())
		return
	}
	if s.Choose(4, "kitproduced") == 0 {
		v := &enccommon.Vault{S: s}
		c := []enc.Cipher{enc.CipherAESGCM, enc.CipherChaCha20Poly1305}[cph-1]
		r, err := enc.Encrypt(bytes.NewReader(pt), enc.EncryptOptions{WrapKeyFn: v.Wrap, Algorithm: enccommon.Algorithms[kw-1].Name, KeyName: "key1", Cipher: &c})
		if err != nil {
			s.Fail("infra-encrypt", err.Error())
			return
		}
		if doc, err = io.ReadAll(r); err != nil {
			s.Fail("infra-encrypt", err.Error())
			return
		}
	}
	// companions for splicing: same plaintext length, so that segment k exists
	other, _, _ := enccommon.RefDocument(s, pt, "key2", kw, cph, 0)
	otherSame, _, _ := enccommon.RefDocument(s, pt, "key1", kw, cph, 0)

	v := &enccommon.Vault{S: s}
	prior := false
	if s.Choose(3, "priordecrypt") == 0 {
		// the vault client keeps unwrapped keys, and the genuine document has been decrypted through it before the
		// tampered one arrives: that earlier use must leave nothing behind that makes a bad document acceptable
		v.Cached = true
		prior = true
		r, err := enc.Decrypt(bytes.NewReader(doc), enc.DecryptOptions{UnwrapKeyFn: v.Unwrapper("key1")})
		if err != nil {
			s.Fail("infra-prior-decrypt", err.Error())
			return
		}
		if back, err := io.ReadAll(r); err != nil || !bytes.Equal(back, pt) {
			s.Fail("infra-prior-decrypt", fmt.Sprintf("the genuine document gave %d bytes and %v", len(back), err))
			return
		}
	}
	mutated := doc
	var what []string
	srcFail := -1
	switch k := s.Choose(11, "faultkind"); {
	case k == 10:
		// a forgery: everything after the manifest (MAC and segments) is replaced by a MAC and segments
		// computed under a file key of the forger's choosing, over a plaintext of the forger's choosing.
		// The manifest still wraps the real file key; the vault is honest, or fails in one of its ways.
		p0, err := refenc.Parse(doc)
		if err != nil {
			s.Fail("infra-refparse", err.Error())
			return
		}
		fk2 := make([]byte, 32)
		keyDesc := ""
		switch s.Choose(3, "forgekey") {
		case 0:
			keyDesc = "the all-zero key"
		case 1:
			for i := range fk2 {
				fk2[i] = 0xff
			}
			keyDesc = "the all-0xff key"
		default:
			for i := range fk2 {
				fk2[i] = byte(17*i + 3)
			}
			keyDesc = "a key of its own"
		}
		forged := append([]byte{^first(pt)}, []byte("forged")...)
		mutated, err = refenc.Encode(forged, fk2, p0.Manifest.NP, p0.Manifest.CPH, p0.ManifestLine)
		if err != nil {
			s.Fail("infra-refencode", err.Error())
			return
		}
		w := "MAC and segments replaced by ones computed under " + keyDesc
		switch s.Choose(5, "forgevault") {
		case 4:
			v.UnwrapWiped = true
			w += "; unwrap fails and returns its wiped 32-byte buffer with the error"
		case 1:
			v.UnwrapErr = true
			w += "; unwrap fails"
		case 2:
			v.UnwrapShort = true
			w += "; unwrap returns a short key"
		case 3:
			v.UnwrapWrong = true
			w += "; unwrap returns a different 32-byte key"
		}
		what = append(what, w)
	case k < 6:
		for i, n := 0, 1+s.Choose(2, "nmut"); i < n; i++ {
			var w string
			if len(mutated) < 40 {
				break
			}
			mutated, w = mutate(s, mutated, other, otherSame)
			what = append(what, w)
		}
	case k < 7:
		v.UnwrapWrong = true
		what = append(what, "unwrap returns a different 32-byte key")
	case k < 8:
		if s.Choose(2, "short") == 0 {
			v.UnwrapShort = true
			what = append(what, "unwrap returns a short key")
		} else if s.Choose(2, "wiped") == 0 {
			v.UnwrapWiped = true
			what = append(what, "unwrap fails and returns its wiped 32-byte buffer with the error")
		} else {
			v.UnwrapErr = true
			what = append(what, "unwrap fails")
		}
	default:
		l := layoutOf(doc)
		switch s.Choose(3, "srcfailclass") {
		case 0:
			srcFail = s.Choose(l.header+1, "srcfail")
		case 1:
			if len(l.segStart) > 0 {
				i := s.Choose(len(l.segStart), "srcfailseg")
				srcFail = l.segStart[i] + l.segLen[i] - 20 + s.Choose(41, "srcfailoff")
				break
			}
			fallthrough
		default:
			srcFail = s.Choose(len(doc)+1, "srcfail")
		}
		if srcFail < 0 {
			srcFail = 0
		}
		if srcFail > len(doc) {
			srcFail = len(doc)
		}
		what = append(what, fmt.Sprintf("source reader fails at offset %d of %d", srcFail, len(doc)))
		s.Fault("reader.error")
	}
	for range what {
		s.Fault("document.mutation")
	}
	desc := fmt.Sprintf("plaintext %d bytes, cipher %d: %v", len(pt), cph, what)
	if prior {
		desc += ", after the genuine document went through the same vault client (which keeps unwrapped keys)"
		s.Fault("vault.key-cached")
	}
	src := &simio.Reader{C: s, Data: mutated, FailAt: srcFail}
	if srcFail >= 0 {
		src.FailErr = simio.FailureKinds[s.Choose(len(simio.FailureKinds), "srcerrkind")]
		src.ErrWithData = s.Choose(2, "errwithdata") == 0
		src.OneShot = s.Choose(3, "oneshot") == 0 // a source that reports its failure once and then carries on
		if src.OneShot {
			desc += ", reported once"
		}
		desc += fmt.Sprintf(" (error %q)", src.FailErr)
	}
	enccommon.Chunking(s, src)
	var out []byte
	var end error
	func() {
		defer func() {
			if r := recover(); r != nil {
				s.Fail("panic", fmt.Sprintf("%s: Decrypt panicked: %v", desc, r))
			}
		}()
		r, err := enc.Decrypt(src, enc.DecryptOptions{UnwrapKeyFn: v.Unwrapper("key1")})
		if err != nil {
			end = err
			return
		}
		out, end = enccommon.ReadAllChunked(s, r)
	}()
	s.Logf("%s -> %d bytes, %v", desc, len(out), end)
	if !bytes.HasPrefix(pt, out) {
		i := 0
		for i < len(out) && i < len(pt) && out[i] == pt[i] {
			i++
		}
		s.Fail("unauthenticated-data-released", fmt.Sprintf("%s: the stream released %d bytes that are not a prefix of the plaintext (first difference at %d)", desc, len(out), i))
	}
	if end == io.EOF && !bytes.Equal(out, pt) {
		sig := "silent-truncation"
		if lm := layoutOf(mutated); len(out) == 0 && lm.header == len(mutated) && len(lm.segStart) == 0 {
			sig = "silent-truncation:payload-removed-entirely"
		}
		s.Fail(sig, fmt.Sprintf("%s: the stream ended with a clean EOF after %d of %d plaintext bytes", desc, len(out), len(pt)))
	}
	if srcFail >= 0 && end == io.EOF {
		s.Fail("source-error-swallowed", fmt.Sprintf("%s: the source reader failed but the output ended cleanly", desc))
	}
	if end == nil {
		s.Fail("no-terminal-result", desc+": stream neither ended nor failed")
	}
}

func TestWorker(t *testing.T) {
	common.Main(t, common.Harness{ID: "C02", NoDelays: true, SeedCrypto: true, Body: body})
}
