// C05 — cron: each job starts once per activation, never early; Stop/Remove are clean.
package c05

import (
	"context"
	"fmt"
	"testing"
	"time"

	"github.com/dapr/kit/cron"

	"verif/simclock"

	"verif/harness/common"
	"verif/simrt"
)

const maxInjected = 2500 * time.Millisecond

type start struct {
	at    time.Time
	stamp uint64
	done  uint64
}

type entry struct {
	idx            int
	spec           string
	sched          cron.Schedule
	id             cron.EntryID
	gated          bool
	addInv, addRet time.Time
	addRetStamp    uint64
	added          bool
	removed        bool
	remInv, remRet time.Time
	remRetStamp    uint64
	starts         []*start
	epochAtAdd     int // run-epoch (number of Starts so far) when it was added
}

type opk int

const (
	opStart opk = iota
	opStop
	opAdd
	opRemove
	opEntries
	opSleep
	opRelease
	opJump
)

type op struct {
	k     opk
	e     *entry
	sleep time.Duration
}

var specs = []string{"* * * * * *", "*/2 * * * * *", "*/3 * * * * *", "0,30 * * * * *", "@every 1s", "@every 2s", "@every 3s", "@every 5s"}
var sleeps = []time.Duration{300 * time.Millisecond, time.Second, 2 * time.Second, 2500 * time.Millisecond, 7 * time.Second, 700 * time.Millisecond}

func body(s *simrt.Sim, tier string) {
	// one run in five uses a stepped fake clock and an exact reference model (stepped_test.go)
	if s.Choose(5, "stepped") == 0 {
		stepped(s, tier)
		return
	}
	mode := s.Choose(4, "mode") // 0,1 exact; 2 no injected delays but wall-clock jumps; 3 injected delays (and possibly jumps)
	exact := mode < 2
	if mode < 3 {
		s.DisableDelays()
	}
	parser := cron.NewParser(cron.Second | cron.Minute | cron.Hour | cron.Dom | cron.Month | cron.Dow | cron.Descriptor)
	clk := &simclock.SkewClock{}
	jumps := mode == 2 || mode == 3 && s.Choose(2, "jumps") == 0
	// the Cron's own location: activation instants of cron specs are computed on its wall clock, which
	// need not be the zone the injected clock reports (offsets of a few seconds make that visible at this time scale)
	loc := []*time.Location{time.UTC, time.UTC, time.FixedZone("E7", 7), time.FixedZone("W13", -13)}[s.Choose(4, "location")]
	c := cron.New(cron.WithParser(parser), cron.WithLocation(loc), cron.WithClock(clk))
	// the activation after t on the Cron's wall clock, reported in the zone the harness keeps its own instants in
	nextOf := func(e *entry, t time.Time) time.Time {
		n := e.sched.Next(t.In(loc))
		if n.IsZero() {
			return n
		}
		return n.In(t.Location())
	}
	now := func() time.Time { return clk.Now() }
	t0 := now()
	rel := func(t time.Time) string {
		if t.IsZero() {
			return "zero"
		}
		return t.Sub(t0).String()
	}

	var entries []*entry
	nclients := 1 + s.Choose(2, "clients")
	var plans [][]op
	// one run in twelve follows a template: a job of the first generation is still running when the Cron is
	// stopped and started again, and returns while the second generation is starting jobs
	restartTemplate := s.Choose(12, "restart-template") == 0
	for cl := 0; cl < nclients; cl++ {
		var l []op
		if restartTemplate && cl == 0 {
			e := &entry{idx: len(entries), spec: "* * * * * *", gated: true}
			sc, err := parser.Parse(e.spec)
			if err != nil {
				s.Fail("parse", err.Error())
				return
			}
			e.sched = sc
			entries = append(entries, e)
			l = append(l, op{k: opAdd, e: e}, op{k: opStart}, op{k: opSleep, sleep: 1100 * time.Millisecond}, op{k: opStop}, op{k: opStart},
				op{k: opSleep, sleep: []time.Duration{700 * time.Millisecond, 900 * time.Millisecond, 1900 * time.Millisecond}[s.Choose(3, "tmpl.sleep")]}, op{k: opRelease})
		}
		for j, n := 0, 3+s.Choose(8, "nops"); j < n; j++ {
			switch k := s.Choose(14, "op"); {
			case k < 2:
				l = append(l, op{k: opStart})
			case k < 3:
				l = append(l, op{k: opStop})
			case k < 6:
				if len(entries) >= 4 {
					continue
				}
				e := &entry{idx: len(entries), spec: specs[s.Choose(len(specs), "spec")], gated: s.Choose(4, "gated") == 0}
				sc, err := parser.Parse(e.spec)
				if err != nil {
					s.Fail("parse", err.Error())
					return
				}
				e.sched = sc
				entries = append(entries, e)
				l = append(l, op{k: opAdd, e: e})
			case k < 7:
				l = append(l, op{k: opRemove})
			case k < 9:
				l = append(l, op{k: opEntries})
			case k < 10:
				if jumps && s.Choose(2, "jump?") == 0 {
					l = append(l, op{k: opJump, sleep: []time.Duration{1500 * time.Millisecond, 4 * time.Second, 11 * time.Second}[s.Choose(3, "jumpby")]})
				} else {
					l = append(l, op{k: opRelease})
				}
			default:
				l = append(l, op{k: opSleep, sleep: sleeps[s.Choose(len(sleeps), "sleep")]})
			}
		}
		plans = append(plans, l)
	}

	// run epochs: [startRetTime, stopInvTime] intervals in which the scheduler runs
	type epoch struct {
		startInv, startRet time.Time
		stopInv, stopRet   time.Time
		stopped            bool
		stopCtx            context.Context
		runName            string // started through Run() in a goroutine of this name
		runReturned        uint64
		stopRetStamp       uint64
		startRetStamp      uint64
	}
	var epochs []*epoch
	running := func() *epoch {
		if len(epochs) > 0 && !epochs[len(epochs)-1].stopped {
			return epochs[len(epochs)-1]
		}
		return nil
	}
	var totalJump time.Duration
	gate := make(chan struct{})
	released := false
	jobsRunning := 0
	var doneObserved []uint64 // stamps at which a Stop context was seen done

	job := func(e *entry) func() {
		return func() {
			st := &start{at: now(), stamp: s.Stamp()}
			e.starts = append(e.starts, st)
			jobsRunning++
			s.Logf("job e%d at %s", e.idx, rel(st.at))
			if e.gated && !released {
				s.Block("job.gate", func() { <-gate })
			} else {
				s.Yield("job")
			}
			jobsRunning--
			st.done = s.Stamp()
		}
	}
	// ctlLock serialises the harness's own bookkeeping of Start/Stop (the calls themselves may interleave with everything else)
	checkEntries := func() {
		inv, invStamp := now(), s.Stamp()
		var snap []cron.Entry
		if s.Choose(3, "entryOrEntries") == 0 {
			// Entry(id) of one added entry: the same promises hold for the single-entry snapshot
			var cand []*entry
			for _, x := range entries {
				if x.added {
					cand = append(cand, x)
				}
			}
			if len(cand) == 0 {
				return
			}
			pick := cand[s.Choose(len(cand), "whichEntry")]
			if se := c.Entry(pick.id); se.Valid() {
				snap = []cron.Entry{se}
			} else if !pick.removed && pick.remInv.IsZero() && pick.addRetStamp != 0 && pick.addRetStamp < invStamp {
				s.Fail("entry-not-found", fmt.Sprintf("Entry(id) of e%d, added and never removed, is reported as not valid", pick.idx))
			}
		} else {
			snap = c.Entries()
		}
		ret := now()
		for _, se := range snap {
			var e *entry
			for _, x := range entries {
				if x.added && x.id == se.ID {
					e = x
				}
			}
			if e == nil {
				continue // being added right now
			}
			if e.removed && e.remRet.Before(inv) {
				s.Fail("entries-lists-removed", fmt.Sprintf("Entries() lists e%d after Remove returned", e.idx))
			}
			// --- Entries reports the next and previous activation actually used
			isEvery := len(e.spec) > 0 && e.spec[0] == '@'
			isAct := func(x time.Time) bool { return nextOf(e, x.Add(-time.Nanosecond)).Equal(x) }
			if !isEvery {
				// whatever the scheduler was doing, Prev and Next are values its schedule produced
				if !se.Prev.IsZero() && !isAct(se.Prev) {
					s.Fail("entries-prev-not-an-activation", fmt.Sprintf("Entries() reports Prev=%s for e%d (%q): not an activation instant of its schedule", rel(se.Prev), e.idx, e.spec))
				}
				if !se.Next.IsZero() && !isAct(se.Next) {
					s.Fail("entries-next-not-an-activation", fmt.Sprintf("Entries() reports Next=%s for e%d (%q): not an activation instant of its schedule", rel(se.Next), e.idx, e.spec))
				}
			}
			if !se.Prev.IsZero() && !se.Next.IsZero() && !se.Prev.Before(se.Next) {
				s.Fail("entries-prev", fmt.Sprintf("Entries(): Prev=%s is not before Next=%s for e%d", rel(se.Prev), rel(se.Next), e.idx))
			}
			if ep := running(); mode < 3 && !se.Next.IsZero() && ep != nil && ep.startRetStamp != 0 && ep.startRetStamp < invStamp && e.addRetStamp != 0 && e.addRetStamp < invStamp {
				// no injected delays and no wall-clock jumps: at the snapshot no activation in the past is left unserved
				if exact && se.Next.Before(inv) {
					s.Fail("entries-next-in-past", fmt.Sprintf("Entries() at %s reports Next=%s for e%d: an activation in the past was left unserved", rel(inv), rel(se.Next), e.idx))
				}
				if exact {
					// the latest start of e that happened before this snapshot was for an activation: Prev is that one or a later one
					var last *start
					for _, st := range e.starts {
						if st.stamp < invStamp {
							last = st
						}
					}
					if last != nil && se.Prev.Before(last.at) {
						s.Fail("entries-prev", fmt.Sprintf("Entries() at %s reports Prev=%s for e%d although a job of it was started at %s", rel(inv), rel(se.Prev), e.idx, rel(last.at)))
					}
				}
				if exact && !se.Prev.IsZero() {
					// exact mode: Prev is the activation the entry's latest start was for: the start instants
					// are the activation instants, so some job of e started (or is about to start) at Prev
					if se.Prev.After(ret) {
						s.Fail("entries-prev", fmt.Sprintf("Entries() at %s reports Prev=%s in the future for e%d", rel(ret), rel(se.Prev), e.idx))
					}
					if !nextOf(e, se.Prev).Equal(se.Next) && len(epochs) == 1 {
						s.Fail("entries-prev", fmt.Sprintf("Entries(): Next=%s is not the activation following Prev=%s for e%d (%q)", rel(se.Next), rel(se.Prev), e.idx, e.spec))
					}
				}
			}
		}
	}
	var names []string
	for cl, l := range plans {
		l := l
		name := fmt.Sprintf("c%d", cl)
		names = append(names, name)
		s.Go(name, func() {
			for _, o := range l {
				switch o.k {
				case opStart:
					if ep := running(); ep != nil && !ep.startRet.IsZero() && !ep.stopped && ep.stopInv.IsZero() && cl == 0 {
						// already running: Start and Run are no-ops that return at once
						if s.Choose(2, "againViaRun") == 0 {
							c.Run()
						} else {
							c.Start()
						}
						s.Yield("start.again")
						continue
					}
					if cl != 0 || running() != nil {
						continue // Start/Stop only from client 0 keeps run epochs unambiguous
					}
					ep := &epoch{startInv: now()}
					epochs = append(epochs, ep)
					if s.Choose(4, "viaRun") == 0 {
						// the blocking form: Run in a goroutine of the caller's; it returns when the Cron is stopped
						runName := fmt.Sprintf("cronrun%d", len(epochs))
						ep.runName = runName
						s.Logf("Run (in its own goroutine) at %s", rel(ep.startInv))
						s.GoKit(runName, func() {
							c.Run()
							ep.runReturned = s.Stamp()
						})
						// "started" = the scheduler has computed its entries and waits for its first event
						if !s.WaitUntil("run.started", time.Minute, func() bool { return s.PredAtRest(runName) }) {
							s.Fail("run-not-started", "Run did not reach its event loop\n"+s.Dump())
							return
						}
					} else {
						s.Logf("Start at %s", rel(ep.startInv))
						c.Start()
					}
					ep.startRet, ep.startRetStamp = now(), s.Stamp()
				case opStop:
					ep := running()
					if cl != 0 || ep == nil || ep.startRet.IsZero() {
						continue
					}
					ep.stopInv = now()
					s.Logf("Stop at %s", rel(ep.stopInv))
					ep.stopCtx = c.Stop()
					ep.stopRet, ep.stopRetStamp = now(), s.Stamp()
					ep.stopped = true
				case opAdd:
					e := o.e
					e.addInv = now()
					e.epochAtAdd = len(epochs)
					s.Logf("Add e%d %q at %s", e.idx, e.spec, rel(e.addInv))
					if s.Choose(3, "addfunc") == 0 {
						// the spec-string entrance (AddFunc -> AddJob -> Schedule, through the Cron's own parser)
						id, err := c.AddFunc(e.spec, job(e))
						if err != nil {
							s.Fail("addfunc-error", fmt.Sprintf("AddFunc(%q) returned %v", e.spec, err))
						}
						e.id = id
					} else {
						e.id = c.Schedule(e.sched, cron.FuncJob(job(e)))
					}
					e.addRet, e.addRetStamp = now(), s.Stamp()
					e.added = true
				case opRemove:
					var cand []*entry
					for _, e := range entries {
						if e.added && !e.removed && e.remInv.IsZero() {
							cand = append(cand, e)
						}
					}
					if len(cand) == 0 {
						continue
					}
					e := cand[s.Choose(len(cand), "which")]
					e.remInv = now()
					s.Logf("Remove e%d at %s", e.idx, rel(e.remInv))
					c.Remove(e.id)
					e.remRet, e.remRetStamp = now(), s.Stamp()
					e.removed = true
				case opEntries:
					checkEntries()
				case opRelease:
					if !released {
						released = true
						close(gate)
						s.Logf("release gate")
					}
				case opSleep:
					s.Sleep(o.sleep)
					if s.Choose(3, "entriesAfterSleep") == 0 {
						checkEntries()
					}
				case opJump:
					// the wall clock steps while the scheduler is at rest (parked on its timer, every job it started already running or done)
					if ep := running(); ep != nil {
						if !s.WaitUntil("rest", time.Minute, func() bool {
							// (no names of kit functions: the scheduler goroutine plus one goroutine per running job are all that is alive)
							return s.PredKitQuiescent() && s.PredLiveCount("") == jobsRunning+1
						}) {
							continue
						}
					}
					s.Logf("wall clock jumps forward by %v at %s", o.sleep, rel(now()))
					clk.Jump(o.sleep)
					totalJump += o.sleep
					s.Fault("clock.jump")
				}
				// Stop contexts: done only when every started job has returned
				for _, ep := range epochs {
					if ep.stopCtx != nil && ep.stopCtx.Err() != nil {
						doneObserved = append(doneObserved, s.Stamp())
						for _, e := range entries {
							for _, st := range e.starts {
								if st.stamp < ep.stopRetStamp && st.done == 0 {
									s.Fail("stop-context-done-early", fmt.Sprintf("the context returned by Stop (at %s) is done while a job of e%d started at %s before that Stop returned is still running", rel(ep.stopRet), e.idx, rel(st.at)))
								}
							}
						}
					}
				}
			}
		})
	}
	if !s.Join(10*time.Minute, names...) {
		s.Fail("hang", "cron operations did not return\n"+s.Dump())
		return
	}
	// settle: let the scheduler serve everything due, then stop it
	s.Sleep(maxInjected + 10*time.Millisecond)
	if !released {
		released = true
		close(gate)
	}
	var finalCtx context.Context
	if ep := running(); ep != nil && !ep.startRet.IsZero() {
		s.Go("finalstop", func() {
			ep.stopInv = now()
			ep.stopCtx = c.Stop()
			ep.stopRet, ep.stopRetStamp = now(), s.Stamp()
			ep.stopped = true
			finalCtx = ep.stopCtx
		})
		if !s.Join(time.Minute, "finalstop") {
			s.Fail("stop-hang", "Stop did not return\n"+s.Dump())
			return
		}
	}
	endTime := now()
	for _, ep := range epochs {
		if ep.stopCtx != nil {
			ctx := ep.stopCtx
			if !s.WaitUntil("stopctx", time.Minute, func() bool { return ctx.Err() != nil }) {
				s.Fail("stop-context-never-done", "every job returned but the context returned by Stop is not done\n"+s.Dump())
				return
			}
		}
	}
	_ = finalCtx
	for _, ep := range epochs {
		if ep.runName != "" && ep.stopped && !s.Join(time.Minute, ep.runName) {
			s.Fail("run-not-returned-after-stop", "Stop returned but Run, which was running the scheduler, did not\n"+s.Dump())
			return
		}
	}
	// after Stop: advancing the clock starts nothing
	nBefore := 0
	for _, e := range entries {
		nBefore += len(e.starts)
	}
	s.Sleep(10 * time.Second)
	nAfter := 0
	for _, e := range entries {
		nAfter += len(e.starts)
	}

	// ---- per-entry oracle: activation chains
	for _, e := range entries {
		if !e.added {
			continue
		}
		// activation instants the entry must / may have: walk the run epochs
		type window struct{ from, fromMax, to time.Time } // Next computed from a time in [from, fromMax]; activations served while < to
		var wins []window
		for i, ep := range epochs {
			if ep.startRet.IsZero() {
				continue
			}
			w := window{to: endTime}
			if ep.stopped {
				w.to = ep.stopInv
			}
			if i+1 > e.epochAtAdd || (i+1 == e.epochAtAdd && false) {
				// entry existed before this Start (or was added while it was starting): Next from the start instant
				if e.addRet.After(ep.startInv) && i+1 == e.epochAtAdd+0 {
					w.from, w.fromMax = e.addInv, e.addRet
				} else {
					w.from, w.fromMax = ep.startInv, ep.startRet
				}
			} else if i+1 == e.epochAtAdd {
				w.from, w.fromMax = e.addInv, e.addRet
			} else {
				continue
			}
			if e.addInv.After(w.from) {
				w.from, w.fromMax = e.addInv, e.addRet
			}
			if e.removed && e.remRet.Before(w.to) {
				w.to = e.remInv
				if e.remInv.Before(w.from) {
					continue
				}
			}
			wins = append(wins, w)
		}
		// minimal chains per window; every start must be matched by a chain element n <= t, in order
		var acts []time.Time // certain activations (exact mode): chain from the latest possible origin equals chain from earliest when from==fromMax
		si := 0
		for _, w := range wins {
			n := nextOf(e, w.from)
			for ; !n.IsZero() && n.Before(w.to); n = nextOf(e, n) {
				acts = append(acts, n)
			}
		}
		// never early / never twice: greedy matching of starts (sorted by time) to the minimal chain
		for _, w := range wins {
			n := nextOf(e, w.from)
			for si < len(e.starts) {
				st := e.starts[si]
				if !st.at.Before(w.to.Add(maxInjected+totalJump+time.Second)) && w.to != endTime {
					break // belongs to a later window
				}
				if n.IsZero() || st.at.Before(n) {
					s.Fail("early-or-twice", fmt.Sprintf("e%d (%q, added at %s): start #%d at %s precedes the earliest activation it could belong to (%s); starts so far %v", e.idx, e.spec, rel(e.addInv), si, rel(st.at), rel(n), relAll(e.starts, t0)))
					break
				}
				n = nextOf(e, n)
				si++
			}
		}
		{
			// once per wake-up: the scheduler never starts one entry twice at the same instant
			// (also when the wall clock jumped over several activations)
			seen := map[time.Time]int{}
			for _, st := range e.starts {
				seen[st.at]++
				if seen[st.at] > 1 && mode < 3 {
					s.Fail("started-twice", fmt.Sprintf("e%d (%q): %d starts at the same instant %s (one wake-up must start an entry once, whatever the clock skipped)", e.idx, e.spec, seen[st.at], rel(st.at)))
				}
			}
		}
		if exact && !s.Failed() {
			// fault-free configuration: the set of starts equals the set of activation instants exactly.
			// Activations coinciding with a Start/Stop/Add/Remove instant may go either way and are not judged.
			fuzzy := func(t time.Time) bool {
				for _, ep := range epochs {
					if t.Equal(ep.stopInv) || t.Equal(ep.stopRet) {
						return true
					}
				}
				return e.removed && (t.Equal(e.remInv) || t.Equal(e.remRet))
			}
			got := map[time.Time]int{}
			for _, st := range e.starts {
				got[st.at]++
			}
			for _, a := range acts {
				if got[a] == 0 && !fuzzy(a) {
					s.Fail("activation-missed", fmt.Sprintf("e%d (%q, added at %s): activation at %s was never served; starts %v", e.idx, e.spec, rel(e.addInv), rel(a), relAll(e.starts, t0)))
				}
			}
			want := map[time.Time]bool{}
			for _, a := range acts {
				want[a] = true
			}
			for t, n := range got {
				if n > 1 {
					s.Fail("started-twice", fmt.Sprintf("e%d: %d starts at %s", e.idx, n, rel(t)))
				}
				if !want[t] && !fuzzy(t) {
					s.Fail("unexpected-start", fmt.Sprintf("e%d (%q, added at %s): start at %s is not an activation instant of a running scheduler; expected %v", e.idx, e.spec, rel(e.addInv), rel(t), relTimes(acts, t0)))
				}
			}
		}
		// Remove / Stop
		for _, st := range e.starts {
			if e.removed && st.at.After(e.remRet.Add(maxInjected+totalJump)) {
				s.Fail("start-after-remove", fmt.Sprintf("e%d started at %s, Remove returned at %s", e.idx, rel(st.at), rel(e.remRet)))
			}
		}
	}
	if nAfter != nBefore {
		s.Fail("start-after-stop", fmt.Sprintf("%d job(s) started after Stop returned and the clock advanced", nAfter-nBefore))
	}
	s.WaitNoLive("cron", time.Minute)
}

func jobsPending(e *entry, t time.Time) bool { return true }

func relAll(st []*start, t0 time.Time) []string {
	var out []string
	for _, x := range st {
		out = append(out, x.at.Sub(t0).String())
	}
	return out
}

func relTimes(ts []time.Time, t0 time.Time) []string {
	var out []string
	for _, x := range ts {
		out = append(out, x.Sub(t0).String())
	}
	return out
}

func TestWorker(t *testing.T) {
	common.Main(t, common.Harness{
		ID:           "C05",
		DelayPalette: []time.Duration{100 * time.Millisecond, 400 * time.Millisecond, 1100 * time.Millisecond},
		MaxDelay:     maxInjected,
		Body:         body,
	})
}
