package c05

import (
	"context"
	"fmt"
	"time"

	clocktesting "k8s.io/utils/clock/testing"

	"github.com/dapr/kit/cron"

	"verif/simrt"
)

// stepped is the C05 workload on a stepped fake clock (k8s FakeClock, the clock the kit's own tests
// inject): the clock reads the same instant until the harness moves it, timers fire only when a step
// reaches them. One client issues Start/Run, Stop, Schedule, Remove, Entries/Entry and clock steps
// (to exactly the next activation, one nanosecond short of it, in between, across several); after
// every operation it waits until the scheduler goroutine and the jobs it started are at rest and
// compares the Cron with an exact reference model: which jobs started at which clock reading, and
// the Next/Prev every entry reports.
type sEntry struct {
	idx        int
	spec       string
	sched      cron.Schedule
	id         cron.EntryID
	added      bool
	live       bool
	next, prev time.Time // the model's view
	starts     []time.Time
	want       []time.Time
}

type neverSchedule struct{}

func (neverSchedule) Next(time.Time) time.Time { return time.Time{} }

func stepped(s *simrt.Sim, tier string) {
	s.DisableDelays()
	parser := cron.NewParser(cron.Second | cron.Minute | cron.Hour | cron.Dom | cron.Month | cron.Dow | cron.Descriptor)
	loc := []*time.Location{time.UTC, time.UTC, time.FixedZone("E7", 7), time.FixedZone("W13", -13)}[s.Choose(4, "location")]
	t0 := time.Date(2031, 5, 17, 10, 59, 50, 0, time.UTC).Add([]time.Duration{0, 300 * time.Millisecond, 999999999}[s.Choose(3, "t0frac")])
	fc := clocktesting.NewFakeClock(t0)
	c := cron.New(cron.WithParser(parser), cron.WithLocation(loc), cron.WithClock(fc))
	rel := func(t time.Time) string {
		if t.IsZero() {
			return "zero"
		}
		return t.Sub(t0).String()
	}
	nextOf := func(e *sEntry, t time.Time) time.Time {
		n := e.sched.Next(t.In(loc))
		if n.IsZero() {
			return n
		}
		return n.UTC()
	}
	specs := []string{"* * * * * *", "*/2 * * * * *", "*/3 * * * * *", "0,30 * * * * *", "0 0 * * * *", "@every 1s", "@every 2s", "@every 5s", "never"}
	var entries []*sEntry
	running := false
	runName := ""
	nruns := 0
	rest := func(what string) bool {
		ok := s.WaitUntil("rest", time.Minute, func() bool {
			if runName != "" && running && !s.PredAtRest(runName) {
				return false
			}
			return s.PredKitQuiescent()
		})
		if !ok {
			s.Fail("hang", "after "+what+" the scheduler did not come to rest\n"+s.Dump())
		}
		return ok
	}
	judge := func(what string) {
		for _, e := range entries {
			if len(e.starts) != len(e.want) {
				s.Fail("stepped-starts", fmt.Sprintf("after %s (clock %s): e%d (%q) was started at %v, the schedule and the clock steps call for %v", what, rel(fc.Now()), e.idx, e.spec, relInstants(e.starts, t0), relInstants(e.want, t0)))
				return
			}
			for i := range e.want {
				if !e.starts[i].Equal(e.want[i]) {
					s.Fail("stepped-starts", fmt.Sprintf("after %s: e%d (%q) was started at %v, the schedule and the clock steps call for %v", what, e.idx, e.spec, relInstants(e.starts, t0), relInstants(e.want, t0)))
					return
				}
			}
		}
	}
	n := 5 + s.Choose(12, "nops")
	for i := 0; i < n && !s.Failed(); i++ {
		what := ""
		switch k := s.Choose(16, "op"); {
		case k < 2: // Start / Run
			if running {
				// a no-op
				if s.Choose(2, "againViaRun") == 0 {
					c.Run()
				} else {
					c.Start()
				}
				what = "Start while running"
				break
			}
			now := fc.Now()
			for _, e := range entries {
				if e.live {
					e.next = nextOf(e, now)
				}
			}
			running = true
			if s.Choose(3, "viaRun") == 0 {
				nruns++
				runName = fmt.Sprintf("cronrun%d", nruns)
				s.GoKit(runName, func() { c.Run() })
				what = "Run"
			} else {
				runName = ""
				c.Start()
				what = "Start"
			}
		case k < 3: // Stop
			if !running {
				continue
			}
			ctx := c.Stop()
			running = false
			what = "Stop"
			if !s.WaitUntil("stopctx", time.Minute, func() bool { return ctx.Err() != nil }) {
				s.Fail("stop-context-never-done", "every job returns at once, but the context returned by Stop is not done\n"+s.Dump())
				return
			}
			if runName != "" && !s.Join(time.Minute, runName) {
				s.Fail("run-not-returned-after-stop", "Stop returned but Run did not\n"+s.Dump())
				return
			}
		case k < 7: // Schedule
			if len(entries) >= 5 {
				continue
			}
			e := &sEntry{idx: len(entries), spec: specs[s.Choose(len(specs), "spec")]}
			if e.spec == "never" {
				e.sched = neverSchedule{}
			} else {
				sc, err := parser.Parse(e.spec)
				if err != nil {
					s.Fail("parse", err.Error())
					return
				}
				e.sched = sc
			}
			entries = append(entries, e)
			job := cron.FuncJob(func() {
				e.starts = append(e.starts, fc.Now())
				s.Logf("job e%d at %s", e.idx, rel(fc.Now()))
			})
			e.id = c.Schedule(e.sched, job)
			e.added, e.live = true, true
			if running {
				e.next = nextOf(e, fc.Now())
			}
			what = fmt.Sprintf("Schedule e%d %q", e.idx, e.spec)
		case k < 8: // Remove
			var cand []*sEntry
			for _, e := range entries {
				if e.live {
					cand = append(cand, e)
				}
			}
			if len(cand) == 0 {
				continue
			}
			e := cand[s.Choose(len(cand), "which")]
			c.Remove(e.id)
			e.live = false
			what = fmt.Sprintf("Remove e%d", e.idx)
		case k < 10: // Entries / Entry
			what = "Entries"
			snap := c.Entries()
			nlive := 0
			for _, e := range entries {
				if !e.live {
					if c.Entry(e.id).Valid() {
						s.Fail("entries-lists-removed", fmt.Sprintf("Entry(id) still finds e%d after Remove returned", e.idx))
					}
					continue
				}
				nlive++
				var got *cron.Entry
				for j := range snap {
					if snap[j].ID == e.id {
						got = &snap[j]
					}
				}
				one := c.Entry(e.id)
				if got == nil || !one.Valid() {
					s.Fail("entry-not-found", fmt.Sprintf("e%d (%q), added and never removed, is missing from Entries() or Entry(id)", e.idx, e.spec))
					continue
				}
				for _, se := range []cron.Entry{*got, one} {
					if !se.Next.Equal(e.next) || !se.Prev.Equal(e.prev) {
						s.Fail("stepped-entries", fmt.Sprintf("at clock %s e%d (%q) reports Prev=%s Next=%s; the schedule and the clock steps give Prev=%s Next=%s", rel(fc.Now()), e.idx, e.spec, rel(se.Prev), rel(se.Next), rel(e.prev), rel(e.next)))
					}
				}
			}
			if len(snap) != nlive {
				s.Fail("entries-lists-removed", fmt.Sprintf("Entries() lists %d entries, %d are live", len(snap), nlive))
			}
		default: // a clock step
			var d time.Duration
			switch s.Choose(8, "stepkind") {
			case 0, 1, 2:
				// to exactly the earliest activation that is waiting (or one nanosecond short of it)
				var earliest time.Time
				for _, e := range entries {
					if e.live && !e.next.IsZero() && (earliest.IsZero() || e.next.Before(earliest)) {
						earliest = e.next
					}
				}
				if earliest.IsZero() || !earliest.After(fc.Now()) {
					d = time.Second
				} else {
					d = earliest.Sub(fc.Now())
					if s.Choose(3, "short") == 0 && d > time.Nanosecond {
						d -= time.Nanosecond
					}
				}
			default:
				d = []time.Duration{300 * time.Millisecond, 700 * time.Millisecond, time.Second, 2500 * time.Millisecond, 7 * time.Second, 61 * time.Second, 2 * time.Hour}[s.Choose(7, "step")]
			}
			fc.Step(d)
			now := fc.Now()
			what = fmt.Sprintf("clock step of %v to %s", d, rel(now))
			if running {
				for _, e := range entries {
					if e.live && !e.next.IsZero() && !e.next.After(now) {
						// due: started once for this wake-up, whatever number of activations the step crossed
						e.want = append(e.want, now)
						e.prev = e.next
						e.next = nextOf(e, now)
					}
				}
			}
		}
		s.Logf("%s", what)
		if !rest(what) {
			return
		}
		judge(what)
	}
	if s.Failed() {
		return
	}
	if running {
		ctx := c.Stop()
		if !s.WaitUntil("stopctx", time.Minute, func() bool { return ctx.Err() != nil }) {
			s.Fail("stop-context-never-done", "the context returned by Stop is not done\n"+s.Dump())
			return
		}
		if runName != "" && !s.Join(time.Minute, runName) {
			s.Fail("run-not-returned-after-stop", "Stop returned but Run did not\n"+s.Dump())
			return
		}
	}
	// after Stop nothing is started, however far the clock moves
	fc.Step(3 * time.Hour)
	if !s.WaitUntil("rest", time.Minute, func() bool { return s.PredKitQuiescent() }) {
		s.Fail("hang", "goroutines still busy after Stop\n"+s.Dump())
		return
	}
	judge("Stop and a clock step of 3h")
	if l := s.Live(""); len(l) > 0 {
		s.Fail("goroutines-alive-after-stop", fmt.Sprintf("after Stop returned and its context was done: %v", l))
	}
	_ = context.Background
}

func relInstants(ts []time.Time, t0 time.Time) []string {
	var out []string
	for _, t := range ts {
		out = append(out, t.Sub(t0).String())
	}
	return out
}
