// C16 — streams: bytes preserved for every chunking; oversize streams always fail.
package c16

import (
	"bytes"
	"errors"
	"fmt"
	"io"
	"testing"

	"github.com/dapr/kit/streams"

	"verif/harness/common"
	"verif/simio"
	"verif/simrt"
)

func mkData(s *simrt.Sim, n int, tag byte) []byte {
	b := make([]byte, n)
	for i := range b {
		b[i] = tag + byte(i%23)
	}
	return b
}

func mkReader(s *simrt.Sim, data []byte, allowFail bool) *simio.Reader {
	r := &simio.Reader{C: s, Data: data, FailAt: -1}
	switch s.Choose(4, "chunkstyle") {
	case 0:
		r.MaxChunk = 1
	case 1:
		r.MaxChunk = 3
	case 2:
		r.MaxChunk = 8
	}
	r.EOFWithData = s.Choose(2, "eofwithdata") == 0
	r.ZeroReads = s.Choose(3, "zeroreads") == 0
	if allowFail && s.Choose(5, "srcfail") == 0 {
		r.FailAt = s.Choose(len(data)+1, "failat")
		r.FailErr = simio.FailureKinds[s.Choose(len(simio.FailureKinds), "srcerrkind")]
		r.ErrWithData = s.Choose(2, "errwithdata") == 0
		r.OneShot = s.Choose(3, "oneshot") == 0 // the source reports its failure once and then carries on
	}
	return r
}

// consume reads the stream to its end in one of three ways and returns the bytes and the terminal error.
func consume(s *simrt.Sim, r io.Reader, maxBuf int) ([]byte, error, string) {
	switch s.Choose(3, "consumer") {
	case 0:
		b := 1 + s.Choose(maxBuf, "bufsize")
		var out []byte
		buf := make([]byte, b)
		for i := 0; i < 10000; i++ {
			n, err := r.Read(buf)
			out = append(out, buf[:n]...)
			if err != nil {
				return out, err, fmt.Sprintf("Read(buf %d)", b)
			}
		}
		return out, errors.New("consumer: stream never ended"), "Read"
	case 1:
		out, err := io.ReadAll(r)
		if err == nil {
			err = io.EOF
		}
		return out, err, "io.ReadAll"
	default:
		var buf bytes.Buffer
		n, err := io.Copy(&buf, r)
		if err == nil {
			err = io.EOF
		}
		if n != int64(buf.Len()) {
			s.Fail("copy-count", fmt.Sprintf("io.Copy reports %d bytes copied, the destination received %d", n, buf.Len()))
		}
		return buf.Bytes(), err, "io.Copy"
	}
}

func limit(s *simrt.Sim) {
	n := s.Choose(17, "N")
	l := s.Choose(n+4, "L")
	if s.Choose(10, "big") == 0 {
		l = n + 4 + s.Choose(100, "Lbig")
	}
	data := mkData(s, l, 'a')
	src := mkReader(s, data, true)
	lr := streams.LimitReadCloser(src, int64(n))
	got, err, how := consume(s, lr, n+2)
	desc := fmt.Sprintf("LimitReadCloser N=%d source %d bytes (chunk<=%d eofWithData=%v zeroReads=%v failAt=%d) consumed by %s", n, l, src.MaxChunk, src.EOFWithData, src.ZeroReads, src.FailAt, how)
	s.Logf("%s -> %d bytes, %v", desc, len(got), err)
	if !bytes.HasPrefix(data, got) {
		s.Fail("limit-wrong-bytes", desc+fmt.Sprintf(": delivered %q which is not a prefix of the source", got))
	}
	if len(got) > n {
		s.Fail("limit-exceeded", desc+fmt.Sprintf(": delivered %d bytes", len(got)))
	}
	srcFails := src.FailAt >= 0 && src.FailAt <= l && src.FailAt <= n
	switch {
	case srcFails:
		// the source fails before the limit is crossed: its error surfaces (a clean EOF would be a lie)
		if err == io.EOF {
			s.Fail("limit-error-swallowed", desc+": the source failed but the stream ended with EOF")
		}
	case l > n && src.FailAt == n+1:
		// the source fails exactly when it delivers the byte that crosses the limit: either error is an
		// honest end, a clean EOF is not
		if err == io.EOF {
			s.Fail("limit-oversize-not-reported", desc+fmt.Sprintf(": the source is longer than N but the stream ended with EOF after %d bytes", len(got)))
		}
	case l > n && (src.FailAt < 0 || src.FailAt > n):
		if !errors.Is(err, streams.ErrStreamTooLarge) {
			s.Fail("limit-oversize-not-reported", desc+fmt.Sprintf(": the source is longer than N but the stream ended with %v after %d bytes", err, len(got)))
		}
		if src.Closes == 0 {
			s.Fail("limit-source-not-closed", desc+": oversize source was not closed")
		}
	case l <= n && src.FailAt < 0:
		if err != io.EOF || !bytes.Equal(got, data) {
			s.Fail("limit-complete-stream-altered", desc+fmt.Sprintf(": got %d bytes and %v", len(got), err))
		}
	}
	lr.Close()
	lr.Close()
	if src.Closes != 1 {
		s.Fail("limit-close-count", desc+fmt.Sprintf(": source closed %d times after consumption and Close", src.Closes))
	}
}

func multi(s *simrt.Sim) {
	k := 1 + s.Choose(4, "nsources")
	var srcs []*simio.Reader
	var readers []io.Reader
	var want []byte
	anyFail := false
	for i := 0; i < k; i++ {
		d := mkData(s, s.Choose(12, "len"), byte('a'+i*3))
		r := mkReader(s, d, !anyFail)
		if r.FailAt >= 0 {
			anyFail = true
			want = append(want, d[:r.FailAt]...)
		} else if !anyFail {
			want = append(want, d...)
		}
		if s.Choose(4, "plain") == 0 {
			r.NoClose = true
			readers = append(readers, simio.PlainReader{R: r})
		} else {
			readers = append(readers, r)
		}
		srcs = append(srcs, r)
		if anyFail && r.FailAt < 0 {
			// sources after the failing one are never reached
		}
	}
	mr := streams.NewMultiReaderCloser(readers...)
	got, err, how := consume(s, mr, 16)
	desc := fmt.Sprintf("MultiReaderCloser %d sources consumed by %s", k, how)
	s.Logf("%s -> %d bytes, %v", desc, len(got), err)
	if anyFail {
		if err == io.EOF {
			s.Fail("multi-error-swallowed", desc+": a source failed but the stream ended with EOF")
		}
		if !bytes.HasPrefix(want, got) && !bytes.Equal(want, got) {
			s.Fail("multi-wrong-bytes", desc+fmt.Sprintf(": got %q want prefix of %q", got, want))
		}
	} else {
		if err != io.EOF || !bytes.Equal(got, want) {
			s.Fail("multi-wrong-bytes", desc+fmt.Sprintf(": got %q (%v), the concatenation is %q", got, err, want))
		}
	}
	mr.Close()
	mr.Close()
	for i, r := range srcs {
		if r.NoClose {
			continue
		}
		if r.Closes != 1 {
			s.Fail("multi-close-count", desc+fmt.Sprintf(": source %d was closed %d times after the stream was consumed (error=%v) and Close was called", i, r.Closes, anyFail))
		}
	}
}

func tee(s *simrt.Sim) {
	data := mkData(s, s.Choose(20, "len"), 'k')
	src := mkReader(s, data, true)
	w := &simio.Writer{C: s, FailAt: -1}
	if s.Choose(5, "wfail") == 0 {
		w.FailAt = s.Choose(len(data)+1, "wfailat")
	}
	tr := streams.NewTeeReadCloser(src, w)
	got, err, how := consume(s, tr, 8)
	desc := fmt.Sprintf("TeeReadCloser source %d bytes (failAt=%d) writer failAt=%d consumed by %s", len(data), src.FailAt, w.FailAt, how)
	s.Logf("%s -> %d bytes, %v", desc, len(got), err)
	if !bytes.Equal(got, w.Got) {
		s.Fail("tee-writer-differs", desc+fmt.Sprintf(": consumer got %q, writer got %q", got, w.Got))
	}
	if !bytes.HasPrefix(data, got) {
		s.Fail("tee-wrong-bytes", desc+fmt.Sprintf(": got %q", got))
	}
	if src.FailAt < 0 && w.FailAt < 0 && (err != io.EOF || !bytes.Equal(got, data)) {
		s.Fail("tee-incomplete", desc+fmt.Sprintf(": got %d bytes and %v", len(got), err))
	}
	if (src.FailAt >= 0 && src.FailAt <= len(data) || w.FailAt >= 0 && w.FailAt < len(data)) && err == io.EOF && !bytes.Equal(got, data) {
		s.Fail("tee-error-swallowed", desc+": a failure ended the stream with EOF")
	}
	if s.Choose(3, "teestop") == 0 {
		// Stop detaches (and closes) the writer; the source is still Close's to close, exactly once
		desc += ", Stop before Close"
		tr.Stop()
		if src.Closes != 0 {
			s.Fail("tee-close-count", desc+fmt.Sprintf(": Stop closed the source (%d times)", src.Closes))
		}
	}
	tr.Close()
	tr.Close()
	if src.Closes != 1 || w.Closes != 1 {
		s.Fail("tee-close-count", desc+fmt.Sprintf(": source closed %d times, writer %d times", src.Closes, w.Closes))
	}
}

func body(s *simrt.Sim, tier string) {
	switch s.Choose(3, "stream") {
	case 0:
		limit(s)
	case 1:
		multi(s)
	case 2:
		tee(s)
	}
}

func TestWorker(t *testing.T) {
	common.Main(t, common.Harness{ID: "C16", NoDelays: true, Body: body})
}
