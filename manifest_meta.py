# Per-check texts for MANIFEST.json (exec'd by tools/mkmanifest.py).
META["C06"] = dict(
    text="Seeded search over interleavings of Enqueue/Dequeue/Close clients and the processor loop, with a context switch possible at every lock, channel, atomic and callback operation of events/queue, timers on a simulated clock and injected delays; history oracle for exactly-once, not-early, bounded lateness, order, removal and Close. Evidence of absence over ~3e5 (quick) to ~1e7 (thorough) distinct schedules, not proof.",
    ref="DESIGN.md 4 C06", technique="deterministic simulation: seeded scheduler + simulated clock, history oracle",
    note="Trusted: Go 1.26.8 runtime and testing/synctest, the one-line select overlay, the weaver's insertions, the lock model. Bounds: <=3 clients, <=6 ops each, <=3 shared keys.")

_NA_PURE = "no schedule, clock, stream or fault in the property: a pure function of its inputs, which deterministic simulation does not decide (DESIGN.md section 6)"
NOT_APPLICABLE = [
    {"property_id": "C03", "reason": "crypto algorithms are pure functions of byte slices and keys; " + _NA_PURE},
    {"property_id": "C04", "reason": "cron Parse/Next are pure functions of (expression, instant); " + _NA_PURE},
    {"property_id": "C07", "reason": "input robustness of ~40 parsers is input-space fuzzing; " + _NA_PURE},
    {"property_id": "C17", "reason": "whether a single sequential call writes into its arguments' spare capacity has no interleaving, time or fault in it; " + _NA_PURE},
]
# properties planned but whose check is not built yet are listed as not claimed until it is
PENDING = ["C01", "C02", "C05", "C08", "C09", "C10", "C11", "C12", "C13", "C14", "C15", "C16", "C18", "C19", "C20"]
for _p in PENDING:
    if _p not in CHECKS:
        NOT_APPLICABLE.append({"property_id": _p, "reason": "not claimed yet: the simulation harness for this property is still being built (planned in DESIGN.md section 4)"})
NOTES = "All checks are `./check <id> <tier>`; VERIF_SEED selects the batch seed; violations are shrunk in-process and written to /verif/replays; known findings in /verif/known_findings.json."
