# Per-check texts for MANIFEST.json (exec'd by tools/mkmanifest.py).
META["C06"] = dict(
    text="Seeded search over interleavings of Enqueue/Dequeue/Close clients and the processor loop, with a context switch possible at every lock, channel, atomic and callback operation of events/queue, timers on a simulated clock and injected delays; history oracle for exactly-once, not-early, bounded lateness, order, removal and Close. Evidence of absence over ~3e5 (quick) to ~1e7 (thorough) distinct schedules, not proof.",
    ref="DESIGN.md 4 C06", technique="deterministic simulation: seeded scheduler + simulated clock, history oracle",
    note="Trusted: Go 1.26.8 runtime and testing/synctest, the one-line select overlay, the weaver's insertions, the lock model. Bounds: <=3 clients, <=6 ops each, <=3 shared keys.")

_TRUST = "Trusted: Go 1.26.8 runtime and testing/synctest, the one-line select overlay, the weaver's insertions, the simulator's lock model (mirrors sync.RWMutex writer preference). Seeded sampling: a clean batch is evidence, not proof."
META["C09"] = dict(
    text="Seeded search over interleavings of Add clients, the run loop, timer expiry, the consumer, context cancellation and Close (context switch possible at every lock/channel/atomic operation of events/ratelimiting; simulated clock). Settled mode compares the signal timeline exactly with an executable model of the statement (first Add immediate, doubling quiet window, pending cap, burst => one signal); racy mode checks signals <= Adds at every receive, every Add followed by a signal, lateness bound for unextended windows, Run/Close return and no helper goroutine alive after Close.",
    ref="DESIGN.md 4 C09", technique="deterministic simulation: seeded scheduler + simulated clock, reference timeline model", note=_TRUST + " Bounds: <=3 adders x <=6 ops, InitialDelay 10/20 ms, MaxDelay x1..x8, cap unset/1..4.")
META["C10"] = dict(
    text="Seeded search over Batch clients, prompt/slow/stalled subscribers (more than the 50-slot buffer outstanding in flood runs), late Subscribe, subscriber cancellation at arbitrary instants and Close, interleaved at every sync operation of events/batcher and events/queue on a simulated clock. Oracles: debounce model (latest value exactly once, never early, superseded values never, bounded lateness), one common order, progress of Batch/Close once stalled subscribers resumed or were cancelled (wedge detection with wait-for dump), channels closed and nothing received after Close.",
    ref="DESIGN.md 4 C10", technique="deterministic simulation: seeded scheduler + simulated clock + stalled/cancelled consumers, debounce reference model", note=_TRUST + " Bounds: <=3 subscribers, <=2 batchers, <=64 Batch calls, 3 shared keys.")
META["C11"] = dict(
    text="Seeded search over 1-3 broadcasting clients, 1-4 prompt/slow/stalled subscribers (more than the 10-slot buffer outstanding), late Subscribe, cancellation and Close racing Broadcast, interleaved at every sync operation of events/broadcaster. Oracles: no duplicates, pairwise-consistent common order that respects real-time order of Broadcast calls, every value delivered to subscribers that stay, progress once stalled subscribers resumed or left (deadlock detection), nothing delivered after Close returned.",
    ref="DESIGN.md 4 C11", technique="deterministic simulation: seeded scheduler, total-order history check, deadlock detection", note=_TRUST + " Bounds: <=4 subscribers, <=3 broadcasters, <=17 values each.")
META["C13"] = dict(
    text="Five simulated workloads (fifo.Mutex, fifo.Map, cmap.Mutex, lock.Context, lock.OuterCancel) with 2-8 clients over 1-3 keys; sync.Mutex/RWMutex acquisition order decided by the simulator; occupancy monitor inside critical sections, FIFO arrival stamped at the channel send, leaked-entry accessor, cancellation while waiting, outer-cancel grace period on the simulated clock and shutdown at arbitrary instants. Two genuine defects are recorded as known findings (cmap.Mutex delete-and-release with waiters; OuterCancel writers across shutdown); any other violation is reported.",
    ref="DESIGN.md 4 C13", technique="deterministic simulation: seeded scheduler with modelled mutexes, occupancy monitor + FIFO/leak/cancellation oracles", note=_TRUST + " Bounds: <=8 clients, <=3 ops each, <=3 keys.")
META["C20"] = dict(
    text="Seeded search over pools of 0-4 initial contexts (live, already ended, Background) and 2-3 clients issuing member cancellations, Add, Size and Cancel, interleaved at every lock/channel operation of the watcher goroutine, Add and Cancel. Oracles: pool never done while a certain member is live, done once all members ended or Cancel returned, Size within the bounds implied by accepted/rejected Adds and 0 after Cancel, late Adds ignored, watcher goroutine gone.",
    ref="DESIGN.md 4 C20", technique="deterministic simulation: seeded scheduler placing Add/Cancel at every watcher step", note=_TRUST + " Bounds: <=4 initial contexts, <=3 clients x <=5 ops.")

_NA_PURE = "no schedule, clock, stream or fault in the property: a pure function of its inputs, which deterministic simulation does not decide (DESIGN.md section 6)"
NOT_APPLICABLE = [
    {"property_id": "C03", "reason": "crypto algorithms are pure functions of byte slices and keys; " + _NA_PURE},
    {"property_id": "C04", "reason": "cron Parse/Next are pure functions of (expression, instant); " + _NA_PURE},
    {"property_id": "C07", "reason": "input robustness of ~40 parsers is input-space fuzzing; " + _NA_PURE},
    {"property_id": "C17", "reason": "whether a single sequential call writes into its arguments' spare capacity has no interleaving, time or fault in it; " + _NA_PURE},
]
# properties planned but whose check is not built yet are listed as not claimed until it is
PENDING = ["C01", "C02", "C05", "C08", "C09", "C10", "C11", "C12", "C13", "C14", "C15", "C16", "C18", "C19", "C20"]
for _p in PENDING:
    if _p not in CHECKS:
        NOT_APPLICABLE.append({"property_id": _p, "reason": "not claimed yet: the simulation harness for this property is still being built (planned in DESIGN.md section 4)"})
NOTES = "All checks are `./check <id> <tier>`; VERIF_SEED selects the batch seed; violations are shrunk in-process and written to /verif/replays; known findings in /verif/known_findings.json."
