// Package simio provides simulated readers and writers whose behaviour (chunking, data
// together with EOF, zero-length reads, mid-stream errors, short writes, close counting) is
// drawn from the simulator's choice tape.
package simio

import (
	"errors"
	"io"
	"math/rand/v2"
)

// Chooser is the part of the simulator the simulated streams need.
type Chooser interface {
	Choose(n int, kind string) int
}

// Sub is a private decision stream for one simulated reader or writer. Harnesses whose code
// under test runs goroutines outside the scheduler's control (unwoven dataflow pipelines) give
// each stream its own Sub, seeded by one draw from the tape, so that concurrent streams never
// compete for the tape and one seed still decides every read size.
type Sub struct{ r *rand.Rand }

// NewSub returns a private stream for seed.
func NewSub(seed uint64) *Sub { return &Sub{rand.New(rand.NewPCG(seed, 0x5deece66d))} }

// Choose implements Chooser.
func (s *Sub) Choose(n int, kind string) int {
	if n <= 1 {
		return 0
	}
	return s.r.IntN(n)
}

// ErrInjected is the sticky error a simulated reader or writer fails with.
var ErrInjected = errors.New("simio: injected I/O error")

// Reader is a simulated source.
type Reader struct {
	C           Chooser
	Data        []byte
	MaxChunk    int   // chunk sizes are drawn from 1..MaxChunk (0 = as much as asked)
	Palette     []int // if set, chunk sizes are drawn from this list instead
	EOFWithData bool  // return io.EOF together with the last data
	ZeroReads   bool  // occasionally return (0, nil), at most 3 in a row
	FailAt      int   // offset at which the reader fails (sticky); <0 = never
	FailErr     error // the error it fails with (default ErrInjected)
	ErrWithData bool  // deliver the last bytes before FailAt together with the error, in one Read
	OneShot     bool  // the error is reported once; later reads carry on with the rest of the data (errors need not be sticky)
	NoClose     bool

	Failures  int // one-shot errors reported so far
	shot      bool
	pos       int
	zeros     int
	failed    bool
	Closes    int
	ReadCalls int
	AfterEOF  int // reads issued after EOF/error was returned
	done      bool
}

func (r *Reader) Read(p []byte) (int, error) {
	r.ReadCalls++
	if r.failed {
		r.AfterEOF++
		return 0, r.failErr()
	}
	if r.done {
		r.AfterEOF++
		return 0, io.EOF
	}
	if len(p) == 0 {
		return 0, nil
	}
	if r.ZeroReads && r.zeros < 3 && r.C.Choose(4, "zeroread") == 0 {
		r.zeros++
		return 0, nil
	}
	r.zeros = 0
	if r.failArmed() && r.pos >= r.FailAt {
		if r.OneShot {
			r.shot = true
			r.Failures++
			return 0, r.failErr()
		}
		r.failed = true
		return 0, r.failErr()
	}
	rem := len(r.Data) - r.pos
	if r.failArmed() && r.FailAt-r.pos < rem {
		rem = r.FailAt - r.pos
	}
	if rem == 0 && r.pos >= len(r.Data) {
		r.done = true
		return 0, io.EOF
	}
	n := len(p)
	if len(r.Palette) > 0 {
		if c := r.Palette[r.C.Choose(len(r.Palette), "chunk")]; c < n {
			n = c
		}
	} else if r.MaxChunk > 0 {
		if c := 1 + r.C.Choose(r.MaxChunk, "chunk"); c < n {
			n = c
		}
	}
	if n > rem {
		n = rem
	}
	copy(p, r.Data[r.pos:r.pos+n])
	r.pos += n
	if r.ErrWithData && r.failArmed() && r.pos >= r.FailAt {
		if r.OneShot {
			r.shot = true
			r.Failures++
			return n, r.failErr()
		}
		r.failed = true
		return n, r.failErr()
	}
	if r.pos >= len(r.Data) && r.EOFWithData && (!r.failArmed() || r.FailAt > len(r.Data)) {
		r.done = true
		return n, io.EOF
	}
	return n, nil
}

// failArmed: a failure is configured and (for a one-shot failure) has not been reported yet.
func (r *Reader) failArmed() bool { return r.FailAt >= 0 && !r.shot }

func (r *Reader) failErr() error {
	if r.FailErr != nil {
		return r.FailErr
	}
	return ErrInjected
}

// FailureKinds are the errors real sources fail with: a private sentinel, a truncated
// transport (io.ErrUnexpectedEOF, bare or wrapped), a closed pipe, and a failure that wraps io.EOF
// ("connection lost: EOF"): an error, not the end of the stream - io.Reader's end is the bare io.EOF, compared with ==.
var FailureKinds = []error{ErrInjected, io.ErrUnexpectedEOF, wrapped{io.ErrUnexpectedEOF}, io.ErrClosedPipe, io.ErrNoProgress, wrapped{io.EOF}}

type wrapped struct{ err error }

func (w wrapped) Error() string { return "transport: " + w.err.Error() }
func (w wrapped) Unwrap() error { return w.err }

// Close counts.
func (r *Reader) Close() error {
	r.Closes++
	return nil
}

// PlainReader hides Close (a source that cannot be closed).
type PlainReader struct{ R *Reader }

func (p PlainReader) Read(b []byte) (int, error) { return p.R.Read(b) }

// Writer is a simulated sink.
type Writer struct {
	C      Chooser
	Got    []byte
	FailAt int // total bytes after which Write fails (short write + error); <0 = never
	Closes int
}

func (w *Writer) Write(p []byte) (int, error) {
	if w.FailAt >= 0 && len(w.Got)+len(p) > w.FailAt {
		n := w.FailAt - len(w.Got)
		if n < 0 {
			n = 0
		}
		w.Got = append(w.Got, p[:n]...)
		return n, ErrInjected
	}
	w.Got = append(w.Got, p...)
	return len(p), nil
}

func (w *Writer) Close() error {
	w.Closes++
	return nil
}
