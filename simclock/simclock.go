// Package simclock provides SkewClock: the bubble's (simulated) monotonic time plus a wall-clock
// offset the harness can change at will. Durations (timers) follow the monotonic clock, Now()
// and the instants delivered on timer channels follow the wall clock — so a harness can make
// the wall clock jump forward over several schedule activations, as an NTP step or a resumed
// VM would.
package simclock

import (
	"sync"
	"time"

	"k8s.io/utils/clock"
)

// SkewClock implements k8s.io/utils/clock.Clock.
type SkewClock struct {
	mu   sync.Mutex
	skew time.Duration
}

// Jump moves the wall clock forward by d.
func (c *SkewClock) Jump(d time.Duration) {
	c.mu.Lock()
	c.skew += d
	c.mu.Unlock()
}

// Skew returns the current offset.
func (c *SkewClock) Skew() time.Duration {
	c.mu.Lock()
	defer c.mu.Unlock()
	return c.skew
}

func (c *SkewClock) Now() time.Time                  { return time.Now().Add(c.Skew()) }
func (c *SkewClock) Since(t time.Time) time.Duration { return c.Now().Sub(t) }
func (c *SkewClock) Sleep(d time.Duration)           { time.Sleep(d) }
func (c *SkewClock) After(d time.Duration) <-chan time.Time {
	return c.NewTimer(d).C()
}
func (c *SkewClock) Tick(d time.Duration) <-chan time.Time { panic("simclock: Tick not supported") }

type timer struct {
	c  *SkewClock
	ch chan time.Time
	t  *time.Timer
}

// NewTimer returns a timer that fires after d of monotonic time and delivers the wall-clock
// instant at which it fired.
func (c *SkewClock) NewTimer(d time.Duration) clock.Timer {
	tm := &timer{c: c, ch: make(chan time.Time, 1)}
	tm.t = time.AfterFunc(d, func() {
		select {
		case tm.ch <- c.Now():
		default:
		}
	})
	return tm
}

func (t *timer) C() <-chan time.Time { return t.ch }
func (t *timer) Stop() bool          { return t.t.Stop() }
func (t *timer) Reset(d time.Duration) bool {
	return t.t.Reset(d)
}

// NewTicker is not supported (no component under test uses it with this clock).
func (c *SkewClock) NewTicker(d time.Duration) clock.Ticker {
	panic("simclock: NewTicker not supported")
}

var _ clock.WithTicker = (*SkewClock)(nil)
