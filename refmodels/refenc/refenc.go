// Package refenc is an independent implementation of the dapr.io/enc/v1 document format,
// written from schemes/enc/v1/README.md only. It shares nothing with the kit's
// implementation except the primitive libraries (AES-GCM, ChaCha20-Poly1305, HKDF, HMAC).
package refenc

import (
	"bytes"
	"crypto/aes"
	"crypto/cipher"
	"crypto/hmac"
	"crypto/sha256"
	"encoding/base64"
	"encoding/binary"
	"encoding/json"
	"errors"
	"fmt"
	"io"

	"golang.org/x/crypto/chacha20poly1305"
	"golang.org/x/crypto/hkdf"
)

const (
	SchemeLine = "dapr.io/enc/v1"
	SegSize    = 65536
	TagSize    = 16
)

// Manifest as published in the README.
type Manifest struct {
	K   string `json:"k,omitempty"`
	KW  int    `json:"kw"`
	WFK []byte `json:"wfk"`
	CPH int    `json:"cph"`
	NP  []byte `json:"np"`
}

func derive(fk, salt []byte, info string) []byte {
	out := make([]byte, 32)
	if _, err := io.ReadFull(hkdf.New(sha256.New, fk, salt, []byte(info)), out); err != nil {
		panic(err)
	}
	return out
}

func aead(cph int, key []byte) (cipher.AEAD, error) {
	switch cph {
	case 1:
		b, err := aes.NewCipher(key)
		if err != nil {
			return nil, err
		}
		return cipher.NewGCM(b)
	case 2:
		return chacha20poly1305.New(key)
	}
	return nil, fmt.Errorf("unknown cipher id %d", cph)
}

func nonce(np []byte, i uint32, last bool) []byte {
	n := make([]byte, 12)
	copy(n, np)
	binary.BigEndian.PutUint32(n[7:], i)
	if last {
		n[11] = 1
	}
	return n
}

// Header builds the three header lines for a manifest line that is already serialised.
func Header(manifestLine []byte, fk []byte) []byte {
	var b bytes.Buffer
	b.WriteString(SchemeLine + "\n")
	b.Write(manifestLine)
	b.WriteByte('\n')
	m := hmac.New(sha256.New, derive(fk, nil, "header"))
	m.Write(b.Bytes())
	b.WriteString(base64.StdEncoding.EncodeToString(m.Sum(nil)))
	b.WriteByte('\n')
	return b.Bytes()
}

// Encode produces a document for plaintext. manifestLine must be the compact JSON of a
// manifest whose np and cph match the arguments (the caller controls key order and k).
func Encode(plaintext, fk, np []byte, cph int, manifestLine []byte) ([]byte, error) {
	a, err := aead(cph, derive(fk, np, "payload"))
	if err != nil {
		return nil, err
	}
	out := Header(manifestLine, fk)
	for i := uint32(0); ; i++ {
		off := int(i) * SegSize
		if off >= len(plaintext) {
			break
		}
		end := off + SegSize
		last := false
		if end >= len(plaintext) {
			end, last = len(plaintext), true
		}
		out = a.Seal(out, nonce(np, i, last), plaintext[off:end], nil)
	}
	return out, nil
}

// Parsed is a strictly parsed document header.
type Parsed struct {
	Manifest     Manifest
	ManifestLine []byte
	MAC          []byte
	Payload      []byte
}

// Parse checks the published layout strictly: three newline-terminated lines, the scheme
// line, a compact JSON manifest with the documented fields, a base64-std MAC.
func Parse(doc []byte) (*Parsed, error) {
	var lines [3][]byte
	rest := doc
	for i := 0; i < 3; i++ {
		j := bytes.IndexByte(rest, '\n')
		if j < 0 {
			return nil, fmt.Errorf("header line %d is not newline-terminated", i+1)
		}
		lines[i], rest = rest[:j], rest[j+1:]
	}
	if string(lines[0]) != SchemeLine {
		return nil, fmt.Errorf("scheme line is %q", lines[0])
	}
	var c bytes.Buffer
	if err := json.Compact(&c, lines[1]); err != nil || !bytes.Equal(c.Bytes(), lines[1]) {
		return nil, errors.New("manifest is not compact JSON")
	}
	p := &Parsed{ManifestLine: lines[1], Payload: rest}
	dec := json.NewDecoder(bytes.NewReader(lines[1]))
	dec.DisallowUnknownFields()
	if err := dec.Decode(&p.Manifest); err != nil {
		return nil, fmt.Errorf("manifest: %w", err)
	}
	if len(p.Manifest.NP) != 7 {
		return nil, fmt.Errorf("nonce prefix has %d bytes", len(p.Manifest.NP))
	}
	if p.Manifest.KW < 1 || p.Manifest.KW > 5 || p.Manifest.CPH < 1 || p.Manifest.CPH > 2 {
		return nil, fmt.Errorf("kw=%d cph=%d out of range", p.Manifest.KW, p.Manifest.CPH)
	}
	mac, err := base64.StdEncoding.DecodeString(string(lines[2]))
	if err != nil || len(mac) != 32 {
		return nil, fmt.Errorf("MAC line is not base64-std of 32 bytes")
	}
	p.MAC = mac
	return p, nil
}

// Decode verifies and decrypts a parsed document with the given file key.
func (p *Parsed) Decode(fk []byte) ([]byte, error) {
	m := hmac.New(sha256.New, derive(fk, nil, "header"))
	m.Write([]byte(SchemeLine + "\n"))
	m.Write(p.ManifestLine)
	m.Write([]byte("\n"))
	if !hmac.Equal(m.Sum(nil), p.MAC) {
		return nil, errors.New("header MAC mismatch")
	}
	a, err := aead(p.Manifest.CPH, derive(fk, p.Manifest.NP, "payload"))
	if err != nil {
		return nil, err
	}
	var out []byte
	rest := p.Payload
	for i := uint32(0); len(rest) > 0; i++ {
		n := SegSize + TagSize
		last := false
		if len(rest) <= n {
			n, last = len(rest), true
		}
		if n <= TagSize {
			return nil, fmt.Errorf("segment %d is empty or shorter than a tag", i)
		}
		pt, err := a.Open(nil, nonce(p.Manifest.NP, i, last), rest[:n], nil)
		if err != nil {
			return nil, fmt.Errorf("segment %d (%d bytes, last=%v): %w", i, n, last, err)
		}
		out = append(out, pt...)
		rest = rest[n:]
	}
	return out, nil
}
