package simrt

import "math/rand/v2"

// TapeEntry is one recorded decision: its kind (for humans and statistics), the number of
// alternatives and the value taken.
type TapeEntry struct {
	Kind string `json:"k"`
	N    int    `json:"n"`
	V    int    `json:"v"`
}

// Source supplies every decision of a run and records the tape it produced.
type Source interface {
	Choose(n int, kind string) int
	Tape() []TapeEntry
}

type rngSource struct {
	r    *rand.Rand
	tape []TapeEntry
}

// NewRNG returns a Source drawing from a PCG stream; seed decides everything.
func NewRNG(seed uint64) Source {
	return &rngSource{r: rand.New(rand.NewPCG(seed, seed^0x9e3779b97f4a7c15))}
}

func (s *rngSource) Choose(n int, kind string) int {
	if n <= 1 {
		return 0
	}
	v := s.r.IntN(n)
	s.tape = append(s.tape, TapeEntry{kind, n, v})
	return v
}
func (s *rngSource) Tape() []TapeEntry { return s.tape }

type tapeSource struct {
	in   []TapeEntry
	pos  int
	tape []TapeEntry
}

// NewTape returns a Source replaying a recorded tape: values are taken modulo n, and an
// exhausted tape yields 0 ("no switch / first candidate / no fault / simplest").
func NewTape(in []TapeEntry) Source { return &tapeSource{in: in} }

func (s *tapeSource) Choose(n int, kind string) int {
	if n <= 1 {
		return 0
	}
	v := 0
	if s.pos < len(s.in) {
		v = s.in[s.pos].V % n
		if v < 0 {
			v = 0
		}
		s.pos++
	}
	s.tape = append(s.tape, TapeEntry{kind, n, v})
	return v
}
func (s *tapeSource) Tape() []TapeEntry { return s.tape }

// SplitMix derives the seed of run i of a batch from the batch seed.
func SplitMix(seed uint64, i uint64) uint64 {
	z := seed + 0x9e3779b97f4a7c15*(i+1)
	z = (z ^ (z >> 30)) * 0xbf58476d1ce4e5b9
	z = (z ^ (z >> 27)) * 0x94d049bb133111eb
	return z ^ (z >> 31)
}
