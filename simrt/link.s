// Empty assembly file: allows the body-less declaration of simGoid (go:linkname pull).
