// Package simrt is the deterministic simulator runtime: a seeded scheduler that owns the
// choice of which goroutine runs next, a modelled view of sync.Mutex/RWMutex so that real
// mutexes never contend, a choice tape from which every decision of a run is drawn, and
// bookkeeping (trace, probes, fault counters, goroutine registry) for oracles and evidence.
//
// One simulated run = one testing/synctest bubble. The bubble root is the scheduler S; all
// other goroutines are parked by simrt at woven sites or durably blocked in channel/timer
// operations. Exactly one goroutine is released at a time.
package simrt

import (
	"fmt"
	"hash/fnv"
	"runtime/debug"
	"sort"
	"strings"
	"sync"
	"sync/atomic"
	"testing"
	"testing/synctest"
	"time"
	_ "unsafe"
)

//go:linkname simSelectState runtime.simSelectState
var simSelectState uint64

//go:linkname simGoid runtime.simGoid
func simGoid() uint64

// Lock modes.
const (
	W = 0 // exclusive (Mutex.Lock / RWMutex.Lock)
	R = 1 // shared (RWMutex.RLock)
)

type gstate int

const (
	gRunning gstate = iota
	gParked
	gDone
)

// G is the simulator's record of one goroutine.
type G struct {
	Name    string
	Client  bool // started by the harness (sim.Go), not by kit code
	goid    uint64
	wake    chan struct{}
	state   gstate
	site    string // where it is parked, or the last site it passed
	opStamp uint64 // stamp taken when it entered its last blocking operation
	inOp    string // site of the blocking operation it entered last (Pre), cleared by Post
	nchild  int
	born    uint64 // value of the global stamp when the goroutine was spawned

	// lock waiting
	waitLock *lockModel
	waitMode int
	admitted bool // reader pre-admitted at writer unlock
	arrival  uint64

	// predicate waiting (WaitUntil)
	pred     func() bool
	deadline time.Time
	timedOut bool

	prio int // PCT priority
}

type lockModel struct {
	ord       int
	writer    bool
	readers   int
	announced int // writers waiting (block new readers, like sync.RWMutex)
	admitted  int // readers admitted at a writer's unlock that have not run yet
	holder    string
}

// Violation is what an oracle (or the simulator itself) reports.
type Violation struct {
	Oracle string `json:"oracle_id"`
	Detail string `json:"detail"`
	Step   uint64 `json:"step"`
}

// Config holds the per-run scheduler knobs (themselves drawn from the tape by the harness
// runner, so that one seed still decides everything).
type Config struct {
	SwitchNum, SwitchDen int             // probability of a context switch at a Yield site
	TimeNum, TimeDen     int             // probability that S sleeps before a pick (timers fire while goroutines are parked)
	DelayPalette         []time.Duration // amounts S may sleep
	MaxInjectedDelay     time.Duration   // total budget of injected delay per run
	Strategy             int             // 0 random walk, 1 PCT priorities, 2 starve-one
	MaxIdle              time.Duration   // simulated idle time after which S declares the run stuck
	MaxSteps             uint64          // hard cap on scheduler steps per run
	MemYields            bool            // scheduling points also before plain shared-memory accesses (woven as YieldMem)
	MaxYields            uint64          // hard cap on scheduling points passed per run (default: 100000, or half of MaxSteps if that is more; ordinary runs stay below 10000)
	Record               bool            // keep the human-readable trace
	Debug                bool            // print trace lines to stderr as they happen
}

// Sim is one simulated run.
type Sim struct {
	cfg Config
	src Source

	mu      sync.Mutex
	gs      map[uint64]*G
	all     []*G
	parked  []*G
	current *G
	epoch   atomic.Uint64
	nyield  uint64 // scheduling points passed (only the released goroutine counts)
	stamp   atomic.Uint64
	notify  chan struct{}
	locks   map[any]*lockModel
	pools   map[*sync.Pool][]any // model of the sync.Pools the code under test uses (PoolGet / PoolPut)
	wgs     map[*sync.WaitGroup]*wgShadow
	free    atomic.Bool
	arrival uint64

	viol       *Violation
	trace      []string
	thash      uint64
	probes     map[string]int
	faults     map[string]int
	switches   uint64
	injected   time.Duration
	start      time.Time
	mainDone   bool
	stuck      bool
	sleepUntil time.Time // end of the longest Sleep a harness goroutine is in
	adopted    int
	starve     string
	nprio      int
	lastRun    *G
	simEnd     time.Time
	unlockCh   chan struct{} // free-run mode: closed and replaced at every unlock
}

var cur atomic.Pointer[Sim]

// site coverage: how often each woven site was passed by a goroutine under the simulator's
// control, over the life of the worker process (a reach measure for the evidence)
var (
	siteMu   sync.Mutex
	siteHits = map[string]uint64{}
)

func hit(site string) {
	siteMu.Lock()
	siteHits[site]++
	siteMu.Unlock()
}

// SiteHits returns a copy of the site coverage counters.
func SiteHits() map[string]uint64 {
	siteMu.Lock()
	defer siteMu.Unlock()
	out := make(map[string]uint64, len(siteHits))
	for k, v := range siteHits {
		out[k] = v
	}
	return out
}

// Active reports whether a simulation is running (woven code is otherwise pass-through).
func Active() bool { s := cur.Load(); return s != nil && !s.free.Load() }

func get() *Sim {
	s := cur.Load()
	if s == nil || s.free.Load() {
		return nil
	}
	return s
}

// ---------------------------------------------------------------- identity

func (s *Sim) me(site string) *G {
	id := simGoid()
	s.mu.Lock()
	g := s.gs[id]
	if g == nil {
		// A goroutine the simulator did not see being created (std-library internals never
		// reach woven sites; this is for robustness). Adopt it.
		s.adopted++
		g = &G{Name: fmt.Sprintf("adopted%d@%s", s.adopted, site), goid: id, wake: make(chan struct{}), state: gRunning}
		s.gs[id] = g
		s.all = append(s.all, g)
	}
	s.mu.Unlock()
	return g
}

// ---------------------------------------------------------------- park / release

func (s *Sim) park(g *G, site string) {
	s.mu.Lock()
	g.state = gParked
	g.site = site
	s.parked = append(s.parked, g)
	s.mu.Unlock()
	select {
	case s.notify <- struct{}{}:
	default:
	}
	<-g.wake
}

// isCurrent reports whether g is the one goroutine S has released.
func (s *Sim) isCurrent(g *G) bool {
	s.mu.Lock()
	c := s.current
	s.mu.Unlock()
	return c == g
}

// control makes sure the caller is under S's control (the released goroutine); a goroutine
// that was woken by a channel operation or timer parks here until S picks it.
func (s *Sim) control(g *G, site string) {
	if !s.isCurrent(g) {
		s.park(g, site)
	}
}

func (s *Sim) yield(g *G, site string) {
	hit(site)
	if !s.isCurrent(g) {
		s.park(g, site)
		return
	}
	g.site = site
	// a goroutine that passes scheduling points for ever without the run ending is a livelock (a loop in
	// the code under test that never terminates): stop it long before the decisions it draws fill the memory
	s.nyield++
	if s.nyield > s.cfg.MaxYields && !s.free.Load() {
		s.Fail("step-limit", fmt.Sprintf("run passed %d scheduling points without ending (last: %s in %s)", s.nyield, site, g.Name))
		panic(abortRun{})
	}
	if s.cfg.SwitchDen > 0 && s.src.Choose(s.cfg.SwitchDen, "sw") >= s.cfg.SwitchDen-s.cfg.SwitchNum {
		s.switches++
		s.park(g, site)
	}
}

// ---------------------------------------------------------------- woven entry points

// Yield is a possible context switch at a visible, non-blocking operation.
func Yield(site string) {
	s := get()
	if s == nil {
		return
	}
	s.yield(s.me(site), site)
}

// PoolGet / PoolPut are woven in place of (*sync.Pool).Get / Put: inside a simulated run a pool is a
// plain LIFO stack that starts empty, so that what a Get returns is a function of the run alone (the
// real pool's answer depends on which P the goroutine runs on and on garbage collections). Outside a
// run they are the real thing.
func PoolGet(p *sync.Pool) any {
	s := cur.Load()
	if s == nil {
		return p.Get()
	}
	s.mu.Lock()
	st := s.pools[p]
	if n := len(st); n > 0 {
		v := st[n-1]
		s.pools[p] = st[:n-1]
		s.mu.Unlock()
		return v
	}
	s.mu.Unlock()
	if p.New != nil {
		return p.New()
	}
	return nil
}

func PoolPut(p *sync.Pool, v any) {
	s := cur.Load()
	if s == nil {
		p.Put(v)
		return
	}
	if v == nil {
		return
	}
	s.mu.Lock()
	s.pools[p] = append(s.pools[p], v)
	s.mu.Unlock()
}

// WGAdd, WGDone, WGWait and WGLeft replace the methods of sync.WaitGroup in woven code. They call the real
// thing and keep a shadow of the counter and of the goroutines that are inside Wait. sync.WaitGroup
// forbids starting a new round (an Add that takes the counter up from zero) before every Wait of the
// previous round has returned; the runtime notices only if the woken waiter has not yet re-read the
// state word, a window of a few instructions that no scheduler placed at kit-level operations can
// hit - so the shadow reports the misuse itself: an Add from zero while a goroutine that entered Wait
// with a positive counter has not come back out (WGLeft runs when the simulator schedules it again).
type wgShadow struct {
	n      int
	inside map[*G]bool
}

func (s *Sim) wgOf(wg *sync.WaitGroup) *wgShadow {
	m := s.wgs[wg]
	if m == nil {
		m = &wgShadow{inside: map[*G]bool{}}
		s.wgs[wg] = m
	}
	return m
}

func WGAdd(wg *sync.WaitGroup, d int) {
	if s := cur.Load(); s != nil && !s.free.Load() {
		s.mu.Lock()
		m := s.wgOf(wg)
		misuse := d > 0 && m.n == 0 && len(m.inside) > 0
		var who []string
		for g := range m.inside {
			who = append(who, g.Name)
		}
		m.n += d
		s.mu.Unlock()
		if misuse {
			sort.Strings(who)
			s.Fail("waitgroup-reused-before-wait-returned", fmt.Sprintf("sync.WaitGroup: Add(%d) takes the counter up from zero while %v, woken by the Done that brought it to zero, has not returned from Wait yet; in production this is the panic \"WaitGroup is reused before previous Wait has returned\" whenever the timing is right", d, who))
		}
	}
	wg.Add(d)
}

func WGDone(wg *sync.WaitGroup) {
	if s := cur.Load(); s != nil && !s.free.Load() {
		s.mu.Lock()
		s.wgOf(wg).n--
		s.mu.Unlock()
	}
	wg.Done()
}

func WGWait(wg *sync.WaitGroup) {
	if s := cur.Load(); s != nil && !s.free.Load() {
		g := s.me("wg.wait")
		s.mu.Lock()
		if m := s.wgOf(wg); m.n > 0 {
			m.inside[g] = true
		}
		s.mu.Unlock()
	}
	wg.Wait()
}

// WGLeft: the caller has returned from Wait and has been scheduled again.
func WGLeft(wg *sync.WaitGroup) {
	if s := cur.Load(); s != nil && !s.free.Load() {
		g := s.me("wg.left")
		s.mu.Lock()
		delete(s.wgOf(wg).inside, g)
		s.mu.Unlock()
	}
}

// YieldMem is a possible context switch before a statement that reads or writes memory other
// goroutines may reach (a field, an element, something behind a pointer) without any
// synchronisation call of its own. It only acts in runs configured with MemYields: such runs explore
// interleavings inside what used to be — or what a change has made — an unprotected critical section.
func YieldMem(site string) {
	s := cur.Load()
	if s == nil || !s.cfg.MemYields || s.free.Load() {
		return
	}
	s.yield(s.me(site), site)
}

// Pre is called before an operation that may block (channel op, select, Wait, Sleep, call
// through an interface or into another component).
func Pre(site string) {
	s := get()
	if s == nil {
		return
	}
	g := s.me(site)
	s.yield(g, site)
	g.inOp = site
	g.opStamp = s.stamp.Add(1)
}

// Post is called right after such an operation: if the operation really blocked, S has
// meanwhile released someone else and the caller parks until it is picked again.
func Post(site string) {
	s := get()
	if s == nil {
		return
	}
	g := s.me(site)
	g.inOp = ""
	s.control(g, site)
}

// Spawn is the handle passed from a `go` statement to the child.
type Spawn struct {
	s *Sim
	g *G
}

// GoSpawn is called by the parent immediately before a `go` statement.
func GoSpawn(site string) *Spawn {
	s := get()
	if s == nil {
		return nil
	}
	p := s.me(site)
	s.control(p, site)
	s.mu.Lock()
	p.nchild++
	g := &G{Name: fmt.Sprintf("%s/%s#%d", p.Name, site, p.nchild), wake: make(chan struct{}), state: gRunning, born: s.stamp.Load()}
	s.assignPrio(g)
	s.all = append(s.all, g)
	s.mu.Unlock()
	return &Spawn{s, g}
}

// GoStart is the first statement of the child: it binds the goroutine and parks.
func GoStart(h *Spawn) {
	if h == nil || h.s.free.Load() {
		return
	}
	s, g := h.s, h.g
	g.goid = simGoid()
	s.mu.Lock()
	s.gs[g.goid] = g
	s.mu.Unlock()
	s.park(g, "start")
}

// GoExit is deferred in the child. It records a panic escaping a kit goroutine as a
// violation instead of letting it kill the worker process.
func GoExit(h *Spawn) {
	if h == nil {
		if r := recover(); r != nil {
			panic(r)
		}
		return
	}
	s, g := h.s, h.g
	if r := recover(); r != nil {
		if _, ok := r.(abortRun); !ok {
			s.Fail("panic", fmt.Sprintf("goroutine %s panicked: %v\n%s", g.Name, r, shortStack()))
		}
	}
	s.mu.Lock()
	g.state = gDone
	delete(s.gs, g.goid)
	s.mu.Unlock()
}

type abortRun struct{}

// ---------------------------------------------------------------- lock model

func (s *Sim) lockFor(p any) *lockModel {
	lm := s.locks[p]
	if lm == nil {
		lm = &lockModel{ord: len(s.locks) + 1}
		s.locks[p] = lm
	}
	return lm
}

func (lm *lockModel) can(mode int) bool {
	if mode == W {
		return !lm.writer && lm.readers == 0 && lm.admitted == 0
	}
	return !lm.writer && lm.announced == 0
}

func (lm *lockModel) take(mode int, g *G) {
	if mode == W {
		lm.writer = true
		lm.holder = g.Name
	} else {
		lm.readers++
	}
}

// BeforeLock is woven before x.Lock()/x.RLock() on sync.Mutex / sync.RWMutex. The caller
// reaches the real Lock only when the model says it is free, so real mutexes never contend.
func BeforeLock(p any, mode int, site string) {
	s := cur.Load()
	if s == nil {
		return
	}
	if s.free.Load() {
		s.freeLock(p, mode)
		return
	}
	g := s.me(site)
	s.yield(g, site)
	s.mu.Lock()
	lm := s.lockFor(p)
	if s.cfg.Debug {
		println("  lock", g.Name, "L", lm.ord, "mode", mode, "can", lm.can(mode), "w", lm.writer, "r", lm.readers, "ann", lm.announced, site)
	}
	if lm.can(mode) {
		lm.take(mode, g)
		s.mu.Unlock()
		return
	}
	g.waitLock = lm
	g.waitMode = mode
	g.admitted = false
	s.arrival++
	g.arrival = s.arrival
	if mode == W {
		lm.announced++
	}
	s.mu.Unlock()
	s.park(g, site) // S grants the lock when it releases us
	if s.free.Load() {
		// woken by teardown rather than granted: continue under the free-run lock model
		s.mu.Lock()
		if g.waitLock == nil {
			s.mu.Unlock()
			return
		}
		if mode == W {
			lm.announced--
		}
		if g.admitted {
			lm.admitted--
		}
		g.waitLock = nil
		g.admitted = false
		s.mu.Unlock()
		s.freeLock(p, mode)
	}
}

// BeforeUnlock is woven before x.Unlock()/x.RUnlock() (for the deferred form, as a defer
// placed after it so that it runs first). It releases the model and checks for an unlock of
// a lock that is not held (which the runtime would turn into an unrecoverable fatal error).
func BeforeUnlock(p any, mode int, site string) {
	s := cur.Load()
	if s == nil {
		return
	}
	if s.free.Load() {
		s.freeUnlock(p, mode)
		return
	}
	g := s.me(site)
	s.control(g, site)
	s.mu.Lock()
	lm := s.lockFor(p)
	if s.cfg.Debug {
		println("  unlock", g.Name, "L", lm.ord, "mode", mode, "w", lm.writer, "r", lm.readers, site)
	}
	bad := false
	if mode == W {
		if !lm.writer {
			bad = true
		} else {
			lm.writer = false
			lm.holder = ""
			// Like sync.RWMutex: readers that queued behind the writer are admitted now,
			// ahead of any writer that is waiting.
			for _, w := range s.parked {
				if w.waitLock == lm && w.waitMode == R && !w.admitted {
					w.admitted = true
					lm.admitted++
				}
			}
		}
	} else {
		if lm.readers <= 0 {
			bad = true
		} else {
			lm.readers--
		}
	}
	s.mu.Unlock()
	if bad {
		s.Fail("unlock-of-unlocked", fmt.Sprintf("%s: goroutine %s unlocks lock L%d (mode %d) that is not held", site, g.Name, lm.ord, mode))
		panic(abortRun{})
	}
}

// freeLock / freeUnlock keep the lock model alive during teardown (goroutines run freely then):
// a goroutine that cannot get a modelled lock blocks durably on a bubble channel instead of on
// the real mutex, so that a wedged component ends the bubble with a detectable deadlock rather
// than hanging the worker.
func (s *Sim) freeLock(p any, mode int) {
	announced := false
	for {
		s.mu.Lock()
		lm := s.lockFor(p)
		ok := lm.can(mode)
		if announced {
			ok = lm.can2free(mode)
		}
		if ok {
			if announced {
				lm.announced--
			}
			lm.take(mode, &G{Name: "free"})
			s.mu.Unlock()
			return
		}
		if mode == W && !announced {
			announced = true
			lm.announced++
		}
		ch := s.unlockCh
		s.mu.Unlock()
		<-ch
	}
}

func (lm *lockModel) can2free(mode int) bool {
	return !lm.writer && lm.readers == 0 && lm.admitted == 0
}

func (s *Sim) freeUnlock(p any, mode int) {
	s.mu.Lock()
	lm := s.lockFor(p)
	bad := false
	if mode == W {
		bad = !lm.writer
		lm.writer = false
		lm.holder = ""
	} else if lm.readers > 0 {
		lm.readers--
	} else {
		bad = true
	}
	close(s.unlockCh)
	s.unlockCh = make(chan struct{})
	s.mu.Unlock()
	if bad {
		// the real unlock would be an unrecoverable runtime fatal error: unwind this goroutine instead
		panic(abortRun{})
	}
}

// AfterUnlock is woven after the real unlock: a natural preemption point.
func AfterUnlock(site string) { Yield(site) }

// ---------------------------------------------------------------- scheduler

func (s *Sim) eligibleLocked(now time.Time) []*G {
	var e []*G
	for _, g := range s.parked {
		switch {
		case g.waitLock != nil:
			if g.admitted || g.waitLock.can2(g.waitMode) {
				e = append(e, g)
			}
		case g.pred != nil:
			if g.pred() {
				e = append(e, g)
			} else if !g.deadline.IsZero() && !now.Before(g.deadline) {
				g.timedOut = true
				e = append(e, g)
			}
		default:
			e = append(e, g)
		}
	}
	sort.Slice(e, func(i, j int) bool { return e[i].Name < e[j].Name })
	return e
}

// can2 is `can` for a waiter that has already announced itself (its own announcement must
// not block it).
func (lm *lockModel) can2(mode int) bool {
	if mode == W {
		return !lm.writer && lm.readers == 0 && lm.admitted == 0
	}
	return !lm.writer && lm.announced == 0
}

func (s *Sim) nearestDeadlineLocked() (time.Time, bool) {
	var d time.Time
	ok := false
	for _, g := range s.parked {
		if g.pred != nil && !g.deadline.IsZero() {
			if !ok || g.deadline.Before(d) {
				d, ok = g.deadline, true
			}
		}
	}
	return d, ok
}

func (s *Sim) assignPrio(g *G) {
	s.nprio++
	g.prio = s.nprio*1000 + int(fnv64(g.Name)%997) // refined in pick for PCT via tape
}

func (s *Sim) pick(e []*G) *G {
	if len(e) == 1 {
		return e[0]
	}
	switch s.cfg.Strategy {
	case 2: // starve one goroutine: it only runs when nothing else can
		var rest []*G
		for _, g := range e {
			if g.Name != s.starve {
				rest = append(rest, g)
			}
		}
		if len(rest) > 0 && len(rest) < len(e) {
			if len(rest) == 1 {
				return rest[0]
			}
			return rest[s.src.Choose(len(rest), "pick")]
		}
	case 1: // sticky: prefer to keep running the goroutine that ran last (long runs of one goroutine)
		for _, g := range e {
			if g == s.lastRun {
				if s.src.Choose(4, "stick") != 0 {
					return g
				}
				break
			}
		}
	}
	return e[s.src.Choose(len(e), "pick")]
}

func (s *Sim) loop() {
	for {
		synctest.Wait()
		select {
		case <-s.notify:
		default:
		}
		s.mu.Lock()
		if s.mainDone || s.stuck {
			s.mu.Unlock()
			return
		}
		if s.epoch.Load() >= s.cfg.MaxSteps {
			s.stuck = true
			s.mu.Unlock()
			s.Fail("step-limit", fmt.Sprintf("run exceeded %d scheduler steps\n%s", s.cfg.MaxSteps, s.Dump()))
			return
		}
		now := time.Now()
		e := s.eligibleLocked(now)
		if len(e) == 0 {
			s.current = nil
			limit := s.cfg.MaxIdle
			if s.sleepUntil.After(now) {
				// the harness itself is asleep (Sleep): idleness counts from the end of that sleep
				limit += s.sleepUntil.Sub(now)
			}
			d := limit
			if dl, ok := s.nearestDeadlineLocked(); ok {
				if until := dl.Sub(now); until < d {
					d = until
				}
			}
			s.mu.Unlock()
			t0 := time.Now()
			select {
			case <-s.notify:
			case <-time.After(d):
				if time.Since(t0) >= limit {
					s.mu.Lock()
					s.stuck = true
					s.mu.Unlock()
					s.Fail("stuck", "no goroutine can run and nothing happened for "+s.cfg.MaxIdle.String()+" of simulated time\n"+s.Dump())
					return
				}
			}
			continue
		}
		// Fault: everyone is slow — let timers fire while goroutines sit at their sites.
		if s.cfg.TimeDen > 0 && len(s.cfg.DelayPalette) > 0 && s.injected+s.cfg.DelayPalette[0] <= s.cfg.MaxInjectedDelay &&
			s.src.Choose(s.cfg.TimeDen, "delay?") >= s.cfg.TimeDen-s.cfg.TimeNum {
			d := s.cfg.DelayPalette[s.src.Choose(len(s.cfg.DelayPalette), "delay")]
			if s.injected+d > s.cfg.MaxInjectedDelay {
				d = s.cfg.DelayPalette[0]
			}
			s.injected += d
			s.faults["sched.delay"]++
			s.current = nil
			s.mu.Unlock()
			s.tracef("S delay %v", d)
			if d > 0 {
				time.Sleep(d)
			}
			continue // re-evaluate after Wait: woken goroutines have parked at their Post
		}
		g := s.pick(e)
		s.lastRun = g
		s.epoch.Add(1)
		for i, p := range s.parked {
			if p == g {
				s.parked = append(s.parked[:i], s.parked[i+1:]...)
				break
			}
		}
		if g.waitLock != nil {
			lm := g.waitLock
			if g.waitMode == W {
				lm.announced--
				lm.take(W, g)
			} else {
				if g.admitted {
					lm.admitted--
				}
				lm.take(R, g)
			}
			g.waitLock = nil
			g.admitted = false
		}
		g.pred = nil
		g.state = gRunning
		s.current = g
		s.mu.Unlock()
		s.tracef("> %s @%s", g.Name, g.site)
		g.wake <- struct{}{}
	}
}

// ---------------------------------------------------------------- harness API

// Go starts a client goroutine under the scheduler.
func (s *Sim) Go(name string, f func()) { s.spawn(name, true, f) }

// GoKit starts a goroutine that the harness lends to kit code for a blocking entry point that
// runs a component's main loop in the caller's goroutine (cron.Run). Liveness and quiescence
// predicates count it with the goroutines kit code spawns itself.
func (s *Sim) GoKit(name string, f func()) { s.spawn(name, false, f) }

func (s *Sim) spawn(name string, client bool, f func()) {
	g := &G{Name: name, Client: client, wake: make(chan struct{}), state: gRunning}
	s.mu.Lock()
	s.assignPrio(g)
	s.all = append(s.all, g)
	s.mu.Unlock()
	go func() {
		g.goid = simGoid()
		s.mu.Lock()
		s.gs[g.goid] = g
		s.mu.Unlock()
		if !s.free.Load() {
			s.park(g, "start")
		}
		defer func() {
			if r := recover(); r != nil {
				if _, ok := r.(abortRun); !ok {
					s.Fail("panic", fmt.Sprintf("client %s panicked: %v\n%s", g.Name, r, shortStack()))
				}
			}
			s.mu.Lock()
			g.state = gDone
			delete(s.gs, g.goid)
			s.mu.Unlock()
		}()
		f()
	}()
}

// Done reports whether the named goroutines have all finished.
func (s *Sim) doneLocked(names []string) bool {
	for _, g := range s.all {
		if g.state != gDone {
			for _, n := range names {
				if g.Name == n {
					return false
				}
			}
		}
	}
	return true
}

// Choose draws the next decision from the tape. Only the released goroutine may draw.
func (s *Sim) Choose(n int, kind string) int {
	if n <= 1 {
		return 0
	}
	if !s.free.Load() {
		if g := s.meIfKnown(); g != nil {
			s.control(g, "choose")
		}
	}
	return s.src.Choose(n, kind)
}

func (s *Sim) meIfKnown() *G {
	id := simGoid()
	s.mu.Lock()
	g := s.gs[id]
	s.mu.Unlock()
	return g
}

// Yield is a harness-side scheduling point.
func (s *Sim) Yield(site string) {
	if s.free.Load() {
		return
	}
	s.yield(s.me(site), site)
}

// Sleep advances the caller's simulated time.
func (s *Sim) Sleep(d time.Duration) {
	if s.free.Load() {
		time.Sleep(d)
		return
	}
	g := s.me("sleep")
	s.control(g, "sleep")
	g.inOp = "sleep"
	s.mu.Lock()
	if u := time.Now().Add(d); u.After(s.sleepUntil) {
		s.sleepUntil = u
	}
	s.mu.Unlock()
	time.Sleep(d)
	g.inOp = ""
	s.control(g, "sleep.post")
}

// Block runs f, which may block in the real runtime (channel operation on a harness
// channel, etc.), with Pre/Post around it.
func (s *Sim) Block(site string, f func()) {
	if s.free.Load() {
		f()
		return
	}
	g := s.me(site)
	s.yield(g, site)
	g.inOp = site
	f()
	g.inOp = ""
	s.control(g, site)
}

// WaitUntil parks the caller until pred() holds (evaluated by S at quiescent points, so it
// must only read state) or until timeout of simulated time has passed. It reports whether
// the predicate held.
func (s *Sim) WaitUntil(site string, timeout time.Duration, pred func() bool) bool {
	if s.free.Load() {
		return pred()
	}
	g := s.me(site)
	s.control(g, site)
	g.pred = pred
	g.timedOut = false
	if timeout > 0 {
		g.deadline = time.Now().Add(timeout)
	} else {
		g.deadline = time.Time{}
	}
	s.park(g, site)
	return !g.timedOut
}

// Join waits for the named client goroutines, at most timeout of simulated time.
func (s *Sim) Join(timeout time.Duration, names ...string) bool {
	return s.WaitUntil("join", timeout, func() bool { return s.doneLocked(names) })
}

// Step is the scheduler's global step counter: a total order stamp for history events.
func (s *Sim) Step() uint64 { return s.epoch.Load() }

// Stamp returns the next value of a global event sequence number. Because exactly one
// goroutine is released at a time, stamps are a total order consistent with real-time order;
// unlike Step they never tie.
func (s *Sim) Stamp() uint64 { return s.stamp.Add(1) }

// Elapsed is the simulated time since the run began.
func (s *Sim) Elapsed() time.Duration { return time.Since(s.start) }

// Fail records a violation (the first one wins).
func (s *Sim) Fail(oracle, detail string) {
	s.mu.Lock()
	if s.viol == nil {
		s.viol = &Violation{Oracle: oracle, Detail: detail, Step: s.epoch.Load()}
	}
	s.mu.Unlock()
}

// Failed reports whether a violation has been recorded.
func (s *Sim) Failed() bool {
	s.mu.Lock()
	defer s.mu.Unlock()
	return s.viol != nil
}

// Probe counts that a rare condition the harness cares about was reached.
func (s *Sim) Probe(name string) {
	s.mu.Lock()
	s.probes[name]++
	s.mu.Unlock()
}

// Probe is the woven / package-level form.
func Probe(name string) {
	if s := cur.Load(); s != nil {
		s.Probe(name)
	}
}

// Fault counts an injected fault by kind.
func (s *Sim) Fault(kind string) {
	s.mu.Lock()
	s.faults[kind]++
	s.mu.Unlock()
}

// Logf appends an event to the trace (and its hash). It never draws and never reads a clock.
func (s *Sim) Logf(format string, a ...any) { s.tracef(format, a...) }

func (s *Sim) tracef(format string, a ...any) {
	line := format
	if len(a) > 0 {
		line = fmt.Sprintf(format, a...)
	}
	s.mu.Lock()
	h := s.thash
	for i := 0; i < len(line); i++ {
		h ^= uint64(line[i])
		h *= 1099511628211
	}
	h ^= '\n'
	h *= 1099511628211
	s.thash = h
	if s.cfg.Debug {
		println(s.epoch.Load(), line)
	}
	if s.cfg.Record {
		s.trace = append(s.trace, fmt.Sprintf("%d %s", s.epoch.Load(), line))
	}
	s.mu.Unlock()
}

// WaitNoLive waits (at most timeout of simulated time) until no goroutine spawned by kit code
// whose name contains filter is alive. It reports whether that happened.
func (s *Sim) WaitNoLive(filter string, timeout time.Duration) bool {
	return s.WaitUntil("nolive", timeout, func() bool {
		for _, g := range s.all {
			if !g.Client && g.state != gDone && strings.Contains(g.Name, filter) {
				return false
			}
		}
		return true
	})
}

// Live returns the names of goroutines spawned by kit code (not harness clients) that have
// not exited, optionally filtered by a substring of their spawn path.
func (s *Sim) Live(filter string) []string {
	s.mu.Lock()
	defer s.mu.Unlock()
	var out []string
	for _, g := range s.all {
		if !g.Client && g.state != gDone && strings.Contains(g.Name, filter) {
			out = append(out, g.Name+"@"+g.where())
		}
	}
	sort.Strings(out)
	return out
}

// LiveBornBefore is Live restricted to goroutines that kit code spawned before the given stamp (a
// value of Stamp() the harness took earlier): "everything that was started before I called Close".
func (s *Sim) LiveBornBefore(filter string, stamp uint64) []string {
	s.mu.Lock()
	defer s.mu.Unlock()
	var out []string
	for _, g := range s.all {
		if !g.Client && g.state != gDone && g.born < stamp && strings.Contains(g.Name, filter) {
			out = append(out, g.Name+"@"+g.where())
		}
	}
	sort.Strings(out)
	return out
}

func (g *G) where() string {
	switch {
	case g.state == gDone:
		return "done"
	case g.state == gParked && g.waitLock != nil:
		return fmt.Sprintf("%s waiting for L%d(mode %d, held by %q readers=%d)", g.site, g.waitLock.ord, g.waitMode, g.waitLock.holder, g.waitLock.readers)
	case g.state == gParked:
		return "parked at " + g.site
	case g.inOp != "":
		return "blocked in " + g.inOp
	default:
		return "running after " + g.site
	}
}

// BlockedIn reports whether the named goroutine is (durably) blocked inside an operation it
// entered at a site containing `sub` — only meaningful at quiescent points (from a pred or
// right after the caller was released).
func (s *Sim) BlockedIn(name, sub string) bool {
	s.mu.Lock()
	defer s.mu.Unlock()
	for _, g := range s.all {
		if g.Name == name {
			return g.state == gRunning && g.inOp != "" && strings.Contains(g.inOp, sub) && s.current != g
		}
	}
	return false
}

// PredBlockedIn is BlockedIn for use inside a WaitUntil predicate (which S evaluates with
// the simulator's own lock held): true if some live goroutine whose name contains `name` is
// blocked inside an operation entered at a site containing `sub`.
func (s *Sim) PredBlockedIn(name, sub string) bool {
	for _, g := range s.all {
		// (S evaluates predicates right after synctest.Wait: a goroutine that is neither parked nor done is durably blocked)
		if g.state == gRunning && strings.Contains(g.Name, name) && g.inOp != "" && strings.Contains(g.inOp, sub) {
			return true
		}
	}
	return false
}

// PredAtRest is for use inside a WaitUntil predicate: true when the named goroutine (exact name)
// is durably blocked in an operation other than the ones listed in `except` (exact site names,
// e.g. the harness's own "sleep") — a name-free way to say "this loop is waiting for its next event".
func (s *Sim) PredAtRest(name string, except ...string) bool {
	for _, g := range s.all {
		if g.Name != name {
			continue
		}
		if g.state != gRunning || g.inOp == "" {
			return false
		}
		for _, x := range except {
			if g.inOp == x {
				return false
			}
		}
		return true
	}
	return false
}

// PredKitQuiescent is for use inside a WaitUntil predicate: true when no goroutine spawned by
// kit code is runnable (each is done or durably blocked in an operation).
func (s *Sim) PredKitQuiescent() bool {
	for _, g := range s.all {
		if !g.Client && g.state == gParked {
			return false
		}
	}
	return true
}

// PredLiveCount is for use inside a WaitUntil predicate: the number of live goroutines spawned
// by kit code whose name contains filter.
func (s *Sim) PredLiveCount(filter string) int {
	n := 0
	for _, g := range s.all {
		if !g.Client && g.state != gDone && strings.Contains(g.Name, filter) {
			n++
		}
	}
	return n
}

// Dump renders the wait-for picture: every live goroutine, where it is, and lock holders.
func (s *Sim) Dump() string {
	s.mu.Lock()
	defer s.mu.Unlock()
	var b strings.Builder
	gs := append([]*G(nil), s.all...)
	sort.Slice(gs, func(i, j int) bool { return gs[i].Name < gs[j].Name })
	for _, g := range gs {
		if g.state == gDone {
			continue
		}
		fmt.Fprintf(&b, "  %s: %s\n", g.Name, g.where())
	}
	return b.String()
}

// ---------------------------------------------------------------- running a simulation

// Result is what one simulated run produced.
type Result struct {
	Violation *Violation
	Tape      []TapeEntry
	Trace     []string
	TraceHash uint64
	Steps     uint64
	Switches  uint64
	SimTime   time.Duration
	Probes    map[string]int
	Faults    map[string]int
	Leaked    bool // goroutines stayed blocked after the run (bubble deadlock at teardown)
}

// Execute runs body as the "main" client of a fresh simulation inside a synctest bubble.
// configure draws the per-run knobs from the source first.
func Execute(t *testing.T, src Source, configure func(src Source) Config, body func(s *Sim)) (res Result) {
	var s *Sim
	func() {
		defer func() {
			if r := recover(); r != nil {
				msg := fmt.Sprint(r)
				if strings.Contains(msg, "deadlock") || strings.Contains(msg, "blocked goroutines") {
					res.Leaked = true
					return
				}
				panic(r)
			}
		}()
		synctest.Test(t, func(t *testing.T) {
			cfg := configure(src)
			if cfg.MaxIdle == 0 {
				cfg.MaxIdle = 48 * time.Hour
			}
			if cfg.MaxSteps == 0 {
				cfg.MaxSteps = 200000
			}
			if cfg.MaxYields == 0 {
				cfg.MaxYields = max(100000, cfg.MaxSteps/2)
			}
			s = &Sim{cfg: cfg, src: src, gs: map[uint64]*G{}, locks: map[any]*lockModel{}, pools: map[*sync.Pool][]any{}, wgs: map[*sync.WaitGroup]*wgShadow{},
				notify: make(chan struct{}, 1), unlockCh: make(chan struct{}), probes: map[string]int{}, faults: map[string]int{},
				thash: 14695981039346656037, start: time.Now()}
			if cfg.Strategy == 2 {
				s.starve = "" // set by harness through StarveOne
			}
			sel := uint64(src.Choose(1<<30, "selseed"))<<1 | 1
			simSelectState = sel
			cur.Store(s)
			s.Go("main", func() {
				defer func() {
					s.mu.Lock()
					s.mainDone = true
					s.mu.Unlock()
				}()
				body(s)
			})
			s.loop()
			s.simEnd = time.Now()
			// Teardown: everything the simulator parked runs free so that it can exit.
			s.free.Store(true)
			simSelectState = 0
			s.mu.Lock()
			parked := s.parked
			s.parked = nil
			s.mu.Unlock()
			for _, g := range parked {
				g.wake <- struct{}{}
			}
		})
	}()
	cur.Store(nil)
	simSelectState = 0
	if s == nil {
		return
	}
	s.mu.Lock()
	res.Violation = s.viol
	res.Trace = s.trace
	res.TraceHash = s.thash
	res.Steps = s.epoch.Load()
	res.Switches = s.switches
	res.SimTime = s.simEnd.Sub(s.start)
	res.Probes = s.probes
	res.Faults = s.faults
	s.mu.Unlock()
	res.Tape = src.Tape()
	return
}

// DisableDelays turns off the scheduler's injected delays for the rest of this run (used by
// harness modes that compare against an exact timeline).
func (s *Sim) DisableDelays() {
	s.mu.Lock()
	s.cfg.TimeDen = 0
	s.mu.Unlock()
}

// LastOpStamp returns the stamp taken when the calling goroutine entered its most recent
// woven blocking operation — for a channel-based mutex, its arrival in the wait queue.
func (s *Sim) LastOpStamp() uint64 { return s.me("opstamp").opStamp }

// MapKeys returns the keys of m in a canonical order (woven in place of `range m`, whose
// order the runtime randomises).
func MapKeys[M ~map[K]V, K comparable, V any](m M) []K {
	keys := make([]K, 0, len(m))
	for k := range m {
		keys = append(keys, k)
	}
	sort.Slice(keys, func(i, j int) bool { return fmt.Sprint(keys[i]) < fmt.Sprint(keys[j]) })
	return keys
}

// StarveOne names the goroutine that strategy 2 only runs when nothing else can.
func (s *Sim) StarveOne(name string) { s.starve = name }

// Strategy returns the scheduling strategy of this run.
func (s *Sim) Strategy() int { return s.cfg.Strategy }

// shortStack renders the frames of the panicking goroutine that belong to kit or harness code.
func shortStack() string {
	var b strings.Builder
	for _, l := range strings.Split(string(debug.Stack()), "\n") {
		if strings.Contains(l, "/repo/") || strings.Contains(l, "/verif/harness/") {
			b.WriteString("   " + strings.TrimSpace(l) + "\n")
		}
	}
	return b.String()
}

func fnv64(x string) uint64 {
	h := fnv.New64a()
	h.Write([]byte(x))
	return h.Sum64()
}
