package fifo

// VerifMapLen is added by the /verif build overlay only: the number of per-key entries a
// FIFO map currently holds (read by the harness at quiescent points).
func VerifMapLen[T comparable](m Map[T]) int { return len(m.(*fifoMap[T]).items) }
