module verif

go 1.26

require (
	github.com/anishathalye/porcupine v1.3.0
	github.com/dapr/kit v0.0.0
	github.com/spiffe/go-spiffe/v2 v2.1.7
	golang.org/x/crypto v0.24.0
	k8s.io/utils v0.0.0-20230726121419-3b25d923346b
)

require (
	github.com/alphadose/haxmap v1.3.1 // indirect
	github.com/fsnotify/fsnotify v1.7.0 // indirect
	github.com/sirupsen/logrus v1.9.3 // indirect
	github.com/tidwall/transform v0.0.0-20201103190739-32f242e2dbde // indirect
	github.com/zeebo/errs v1.3.0 // indirect
	golang.org/x/exp v0.0.0-20231006140011-7918f672742d // indirect
	golang.org/x/sys v0.21.0 // indirect
)

replace github.com/dapr/kit => /repo

// an unmodified copy of the version /repo requires (kept in step by ./check), so that the weaver can overlay it:
// files inside the module cache cannot be overlaid
replace github.com/alphadose/haxmap => ./third_party/haxmap
