// Package simos is the filesystem seam: the weaver redirects os.X calls of concurrency/dir
// to simos.X. Each call is a numbered step at which the simulator can inject a crash (panic
// unwound by the harness; only the disk survives), an error, or a torn write.
package simos

import (
	"errors"
	"io/fs"
	"os"
)

// Active exists so that woven files always reference the package.
func Active() bool { return hook != nil }

// Hook is consulted before and after every filesystem call.
type Hook interface {
	// Before may return an error to inject instead of performing the call, or panic to crash.
	Before(op string, args ...string) error
	// After is called once the real call has been made (crash points "after step k").
	After(op string, err error)
}

var hook Hook

// dead: a simulated crash (a Crash panic) is unwinding, or has unwound, the code under test. A process that
// has died does nothing more to the disk, so whatever the unwinding still runs - deferred clean-up in the
// code under test - finds every filesystem call refused. SetHook revives (the next Write is a new process, or the
// same one after the harness has caught the panic).
var dead bool

// ErrDead is what filesystem calls return between a simulated crash and the next SetHook.
var ErrDead = errors.New("simos: the process has crashed")

// SetHook installs h (nil = pass-through). One simulated run at a time per process.
func SetHook(h Hook) { hook, dead = h, false }

func markIfCrash() {
	if r := recover(); r != nil {
		if _, ok := r.(Crash); ok {
			dead = true
		}
		panic(r)
	}
}

func before(op string, args ...string) error {
	if dead {
		return ErrDead
	}
	if hook == nil {
		return nil
	}
	defer markIfCrash()
	return hook.Before(op, args...)
}

func after(op string, err error) {
	if hook != nil && !dead {
		defer markIfCrash()
		hook.After(op, err)
	}
}

func MkdirAll(path string, perm fs.FileMode) error {
	if err := before("MkdirAll", path); err != nil {
		return err
	}
	err := os.MkdirAll(path, perm)
	after("MkdirAll", err)
	return err
}

func Mkdir(path string, perm fs.FileMode) error {
	if err := before("Mkdir", path); err != nil {
		return err
	}
	err := os.Mkdir(path, perm)
	after("Mkdir", err)
	return err
}

// TornWrite, when returned by Hook.Before for WriteFile, makes the call write only a prefix
// of the data and then crash.
type TornWrite struct{ N int }

func (TornWrite) Error() string { return "torn write" }

// Crash is the panic value used to simulate process death.
type Crash struct{ At string }

func WriteFile(name string, data []byte, perm fs.FileMode) error {
	if err := before("WriteFile", name); err != nil {
		if tw, ok := err.(TornWrite); ok {
			n := tw.N
			if n > len(data) {
				n = len(data)
			}
			os.WriteFile(name, data[:n], perm)
			dead = true
			panic(Crash{At: "torn WriteFile " + name})
		}
		return err
	}
	err := os.WriteFile(name, data, perm)
	after("WriteFile", err)
	return err
}

func Symlink(oldname, newname string) error {
	if err := before("Symlink", oldname, newname); err != nil {
		return err
	}
	err := os.Symlink(oldname, newname)
	after("Symlink", err)
	return err
}

func Rename(oldpath, newpath string) error {
	if err := before("Rename", oldpath, newpath); err != nil {
		return err
	}
	err := os.Rename(oldpath, newpath)
	after("Rename", err)
	return err
}

func RemoveAll(path string) error {
	if err := before("RemoveAll", path); err != nil {
		return err
	}
	err := os.RemoveAll(path)
	after("RemoveAll", err)
	return err
}

func Remove(path string) error {
	if err := before("Remove", path); err != nil {
		return err
	}
	err := os.Remove(path)
	after("Remove", err)
	return err
}

func Readlink(name string) (string, error) {
	if err := before("Readlink", name); err != nil {
		return "", err
	}
	s, err := os.Readlink(name)
	after("Readlink", err)
	return s, err
}

func ReadDir(name string) ([]os.DirEntry, error) {
	if err := before("ReadDir", name); err != nil {
		return nil, err
	}
	d, err := os.ReadDir(name)
	after("ReadDir", err)
	return d, err
}

func Stat(name string) (os.FileInfo, error) {
	if err := before("Stat", name); err != nil {
		return nil, err
	}
	fi, err := os.Stat(name)
	after("Stat", err)
	return fi, err
}

func Lstat(name string) (os.FileInfo, error) {
	if err := before("Lstat", name); err != nil {
		return nil, err
	}
	fi, err := os.Lstat(name)
	after("Lstat", err)
	return fi, err
}

func ReadFile(name string) ([]byte, error) {
	if err := before("ReadFile", name); err != nil {
		return nil, err
	}
	b, err := os.ReadFile(name)
	after("ReadFile", err)
	return b, err
}
