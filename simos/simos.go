package simos

func Active() bool { return false }
