# Registry of claimed properties (exec'd by ./check). One entry per property.
reg("C06", weave=["events/queue"],
    quick_runs=320000, thorough_runs=8000000,
    real=["events/queue/processor.go", "events/queue/queue.go", "k8s.io/utils/clock RealClock over the bubble clock"],
    stub=["execute callback (records invocations)"],
    assumptions=["testing/synctest fake clock; yield points at every sync operation, channel operation, atomic and interface call woven into events/queue",
                 "lateness bound assumes time advances only by idle jumps and by the scheduler's injected delays (budget 4 ms per run)"])
