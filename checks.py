# Registry of claimed properties (exec'd by ./check). One entry per property.
reg("C06", weave=["events/queue"],
    quick_runs=320000, thorough_runs=8000000,
    real=["events/queue/processor.go", "events/queue/queue.go", "k8s.io/utils/clock RealClock over the bubble clock"],
    stub=["execute callback (records invocations)"],
    assumptions=["testing/synctest fake clock; yield points at every sync operation, channel operation, atomic and interface call woven into events/queue",
                 "lateness bound assumes time advances only by idle jumps and by the scheduler's injected delays (budget 4 ms per run)"])
reg("C10", weave=["events/queue", "events/batcher"],
    quick_runs=320000, thorough_runs=6000000,
    real=["events/batcher/batcher.go", "events/queue/processor.go", "events/queue/queue.go"],
    stub=["subscriber readers (prompt / slow / stalled) and cancellers are harness clients"],
    assumptions=["a live subscriber that does not read may hold up delivery (documented blocking sends): progress is demanded only after every stalled subscriber resumed or was cancelled",
                 "testing/synctest fake clock; injected scheduler delay budget 6 ms per run"])
reg("C11", weave=["events/broadcaster"],
    quick_runs=320000, thorough_runs=6000000,
    real=["events/broadcaster/broadcaster.go"],
    stub=["subscriber readers (prompt / slow / stalled) and cancellers are harness clients"],
    assumptions=["a live subscriber that does not read may hold up Broadcast (documented blocking send): progress is demanded only after every stalled subscriber resumed or was cancelled",
                 "under Close racing Broadcast, values still buffered at Close may be dropped (statement: 'while the broadcaster is open')"])
reg("C09", weave=["events/ratelimiting"],
    quick_runs=320000, thorough_runs=6000000,
    real=["events/ratelimiting/coalescing.go (default RealClock over the bubble clock)"],
    stub=["consumer of the event channel and Add clients are harness goroutines"],
    assumptions=["settled mode compares against an executable model of the statement with the scheduler's delay injection off; ties between an Add and a window end may resolve either way",
                 "racy mode: lateness bound MaxDelay + 6 ms injected-delay budget + 1 ms"])
reg("C20", weave=["context"],
    quick_runs=480000, thorough_runs=10000000,
    real=["context/pool.go"], stub=["member contexts are std context.WithCancel / Background created by the harness"],
    assumptions=["a context counts as a certain member only if, at the instant its Add returned, the pool was observed live and a certain member was still live (the statement's own wording); Adds racing the pool's end are treated as possibly-members (no obligation either way)"])
reg("C13", weave=["concurrency/fifo", "concurrency/cmap", "concurrency/lock"],
    quick_runs=480000, thorough_runs=10000000,
    real=["concurrency/fifo/mutex.go", "concurrency/fifo/map.go", "concurrency/cmap/mutex.go", "concurrency/lock/context.go", "concurrency/lock/outercancel.go"],
    stub=["critical sections, readers/writers and cancellers are harness clients; sync.Mutex/RWMutex acquisition order is decided by the simulator's lock model"],
    assumptions=["FIFO arrival = the instant a goroutine enters the channel send of the FIFO mutex (stamped by the simulator immediately before the operation executes)",
                 "clients pair their calls correctly; plain Delete/Clear of cmap.Mutex (not in the property's quantifier) are not issued"])
reg("C14", weave=["concurrency/cmap", "concurrency/slice"],
    quick_runs=320000, thorough_runs=6000000,
    real=["concurrency/cmap/map.go", "concurrency/cmap/atomic.go", "concurrency/slice/slice.go", "ring/ring.go", "ring/buffered.go"],
    stub=["sequential reference models (map, handle/counter map, slice) checked with porcupine; container/ring and a plain Go slice queue as references for the rings"],
    assumptions=["ring.Ring / ring.Buffered have no concurrency: their part is a seeded sequential comparison against the reference, included as the refinement half of the property",
                 "RemoveFront is only issued on a non-empty buffered ring (its result on an empty one is unspecified)"],
    probes_required=["porcupine.checked", "ring.sequence", "buffered.sequence"])
reg("C12", weave=["concurrency"],
    quick_runs=320000, thorough_runs=6000000,
    real=["concurrency/runner.go", "concurrency/closer.go", "concurrency/closer_unit.go (WithFatalShutdown, -tags unit)"],
    stub=["runners, closers, logger and the fatal-shutdown action are harness stubs programmed from the tape"],
    assumptions=["fatal-shutdown must fire if the slowest closer exceeds grace + 1.5 ms (injected-delay budget) and must not if it stays 1.5 ms under; the band in between is not judged"])
reg("C15", weave=["ttlcache"],
    quick_runs=320000, thorough_runs=6000000,
    real=["ttlcache/ttlcache.go", "github.com/alphadose/haxmap (third-party, interleaved at call granularity only)", "k8s.io/utils/clock RealClock over the bubble clock"],
    stub=[],
    assumptions=["sequential configuration: exact agreement with a reference map with expiries; concurrent configuration: a miss on a live key is excused only if the key had an earlier entry (the documented cleanup/refresh race)",
                 "haxmap internals are not interleaved below call granularity"])
