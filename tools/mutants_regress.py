#!/usr/bin/env python3
"""Run the quick check(s) named by each hand-written / reverse-of-a-repair mutant (mutants/<cNN>[cMM]-*.diff) against a scratch
worktree of /repo with the mutant applied; write mutants/REGRESSION.md."""
import glob, os, re, subprocess
V = "/verif"
env = dict(os.environ, GOFLAGS="-mod=mod", GOPROXY="off", GOSUMDB="off", GOTOOLCHAIN="local")
WT = "/tmp/mutreg-%d" % os.getpid()
def sh(*a, **k):
    return subprocess.run(a, stdout=subprocess.PIPE, stderr=subprocess.STDOUT, text=True, env=env, **k)
sh("git", "-C", "/repo", "worktree", "add", "--detach", WT, "HEAD")
rows = []
try:
    for p in sorted(glob.glob(V + "/mutants/*.diff")):
        name = os.path.basename(p)
        ids = ["C" + x for x in re.findall(r"c(\d\d)", name.split("-")[0])]
        sh("git", "-C", WT, "checkout", "--", "."); sh("git", "-C", WT, "clean", "-fdq")
        if sh("git", "-C", WT, "apply", p).returncode != 0:
            rows.append((name, "-", "DOES NOT APPLY", "")); print(rows[-1], flush=True); continue
        for c in ids:
            r = subprocess.run([V + "/check", c, "quick"], stdout=subprocess.PIPE, stderr=subprocess.STDOUT, text=True, env=dict(env, VERIF_REPO=WT), cwd=V)
            sigs = sorted(set(re.findall(r"signature=(\S+)", r.stdout)))
            rows.append((name, c, "caught" if r.returncode == 1 and sigs else ("quiet" if r.returncode == 0 else "exit %d" % r.returncode), ", ".join(sigs)))
            print(rows[-1], flush=True)
finally:
    sh("git", "-C", "/repo", "worktree", "remove", "--force", WT); sh("git", "-C", "/repo", "worktree", "prune")
with open(V + "/mutants/REGRESSION.md", "w") as f:
    f.write("# Quick checks against the hand-written mutants and the reverse of every repair (tools/mutants_regress.py)\n\n| mutant | check | result | oracles that fired |\n|---|---|---|---|\n")
    for r in rows:
        f.write("| %s | %s | %s | %s |\n" % r)
    f.write("""
Notes on the rows that are not `caught`:
* `c14-buffered-shrink.diff` (shrink at `>=` instead of `>`): behaviourally equivalent - it only frees unused slots one step earlier.
* `c12-second-run-waits-for-lock.diff` (reverse of 9d0beb8): equivalent since c28f579 - Run no longer holds the manager's lock while
  the closers run, so a second Run that queues on the lock is refused a moment later anyway. Against the tree between the two
  repairs the check reports it (`second-run-blocked`).
""")
