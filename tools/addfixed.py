import json,sys
prop,commit,sig,what=sys.argv[1:5]
d=json.load(open('/verif/known_findings.json'))
d.append({"status":"fixed","property":prop,"commit":commit,"signature":sig,"what":"fixed: property=%s %s %s"%(prop,commit,what)})
json.dump(d,open('/verif/known_findings.json','w'),indent=1)
