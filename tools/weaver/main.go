// weaver instruments a copy of dapr/kit packages with simulator calls and emits a
// `go build -overlay` map. /repo itself is never modified.
//
// usage: weaver -repo /repo -out DIR [-simos pkgpath,...] [-extra DIR] pkgpattern...
//
// All rewrites are textual insertions on the statement's own line, so line numbers in stack
// traces and site names match the original source.
package main

import (
	"encoding/json"
	"flag"
	"fmt"
	"go/ast"
	"go/token"
	"go/types"
	"os"
	"path/filepath"
	"sort"
	"strings"

	"golang.org/x/tools/go/packages"
	"golang.org/x/tools/go/types/typeutil"
)

type edit struct {
	off  int // byte offset in the original file
	del  int // bytes to delete at off
	text string
	seq  int // stable order for edits at the same offset
}

type fileWeaver struct {
	pkg       *packages.Package
	file      *ast.File
	tf        *token.File
	src       []byte
	edits     []edit
	seq       int
	n         int // unique counter for generated identifiers
	funcs     []*ast.FuncDecl
	simos     bool
	usedSimos bool
	stats     map[string]int
}

var allSites []string

var simosFuncs = map[string]bool{
	"MkdirAll": true, "WriteFile": true, "Symlink": true, "Rename": true, "RemoveAll": true,
	"Remove": true, "Readlink": true, "ReadDir": true, "Stat": true, "Lstat": true, "Mkdir": true, "ReadFile": true,
}

func main() {
	repo := flag.String("repo", "/repo", "repository root")
	out := flag.String("out", "", "output directory")
	simosPk := flag.String("simos", "", "comma-separated package paths (relative) whose os.X calls are redirected to simos.X")
	extra := flag.String("extra", "", "directory with extra files to add per package: <extra>/<relpkg>/*.go")
	tags := flag.String("tags", "unit", "build tags")
	mapto := flag.String("mapto", "", "root to use in overlay keys instead of -repo (sources are read from -repo, the build sees them at -mapto)")
	skip := flag.String("skip", "", "comma-separated file base names that are left unwoven (pure computation)")
	flag.Parse()
	skipSet := map[string]bool{}
	for _, f := range strings.Split(*skip, ",") {
		if f != "" {
			skipSet[f] = true
		}
	}
	if *out == "" || flag.NArg() == 0 {
		fmt.Fprintln(os.Stderr, "usage: weaver -out DIR pkg...")
		os.Exit(2)
	}
	simosSet := map[string]bool{}
	for _, p := range strings.Split(*simosPk, ",") {
		if p != "" {
			simosSet[p] = true
		}
	}
	cfg := &packages.Config{
		Mode:       packages.NeedName | packages.NeedFiles | packages.NeedCompiledGoFiles | packages.NeedSyntax | packages.NeedTypes | packages.NeedTypesInfo | packages.NeedImports,
		Dir:        *repo,
		BuildFlags: []string{"-tags=" + *tags},
		Env:        os.Environ(),
	}
	var patterns []string
	for _, a := range flag.Args() {
		if first := strings.SplitN(a, "/", 2)[0]; strings.Contains(first, ".") && !strings.HasPrefix(a, "./") {
			// an import path of a dependency (github.com/...): woven from the module cache
			patterns = append(patterns, a)
			continue
		}
		patterns = append(patterns, "./"+strings.TrimPrefix(a, "./"))
	}
	pkgs, err := packages.Load(cfg, patterns...)
	if err != nil {
		fmt.Fprintln(os.Stderr, "weaver: load:", err)
		os.Exit(2)
	}
	bad := false
	for _, p := range pkgs {
		for _, e := range p.Errors {
			fmt.Fprintln(os.Stderr, "weaver: package error:", e)
			bad = true
		}
	}
	if bad {
		os.Exit(2)
	}
	overlay := map[string]string{}
	total := map[string]int{}
	os.MkdirAll(*out, 0o755)
	for _, p := range pkgs {
		rel := strings.TrimPrefix(p.PkgPath, "github.com/dapr/kit/")
		for i, f := range p.Syntax {
			name := p.CompiledGoFiles[i]
			if strings.HasSuffix(name, "_test.go") || skipSet[filepath.Base(name)] {
				continue
			}
			src, err := os.ReadFile(name)
			if err != nil {
				fmt.Fprintln(os.Stderr, "weaver:", err)
				os.Exit(2)
			}
			fw := &fileWeaver{pkg: p, file: f, tf: p.Fset.File(f.Pos()), src: src, simos: simosSet[rel], stats: map[string]int{}}
			fw.weave()
			if len(fw.edits) == 0 {
				continue
			}
			res := fw.apply()
			dst := filepath.Join(*out, rel, filepath.Base(name))
			os.MkdirAll(filepath.Dir(dst), 0o755)
			if err := os.WriteFile(dst, res, 0o644); err != nil {
				fmt.Fprintln(os.Stderr, "weaver:", err)
				os.Exit(2)
			}
			key := name
			if *mapto != "" && strings.HasPrefix(name, filepath.Clean(*repo)+string(filepath.Separator)) {
				key = filepath.Join(*mapto, strings.TrimPrefix(name, filepath.Clean(*repo)))
			}
			overlay[key] = dst
			for k, v := range fw.stats {
				total[k] += v
			}
		}
		if *extra != "" {
			ents, _ := os.ReadDir(filepath.Join(*extra, rel))
			for _, e := range ents {
				if strings.HasSuffix(e.Name(), ".go") {
					root := *repo
					if *mapto != "" {
						root = *mapto
					}
					overlay[filepath.Join(root, rel, e.Name())] = filepath.Join(*extra, rel, e.Name())
				}
			}
		}
	}
	js, _ := json.MarshalIndent(map[string]any{"Replace": overlay}, "", " ")
	os.WriteFile(filepath.Join(*out, "overlay.json"), js, 0o644)
	sort.Strings(allSites)
	sj, _ := json.Marshal(allSites)
	os.WriteFile(filepath.Join(*out, "sites.json"), sj, 0o644)
	st, _ := json.MarshalIndent(total, "", " ")
	os.WriteFile(filepath.Join(*out, "stats.json"), st, 0o644)
}

func (w *fileWeaver) off(p token.Pos) int { return w.tf.Offset(p) }

func (w *fileWeaver) ins(p token.Pos, text string) {
	w.seq++
	w.edits = append(w.edits, edit{off: w.off(p), text: text, seq: w.seq})
}

func (w *fileWeaver) delRange(from, to token.Pos) {
	w.seq++
	w.edits = append(w.edits, edit{off: w.off(from), del: w.off(to) - w.off(from), seq: w.seq})
}

func (w *fileWeaver) text(n ast.Node) string { return string(w.src[w.off(n.Pos()):w.off(n.End())]) }

func (w *fileWeaver) apply() []byte {
	sort.SliceStable(w.edits, func(i, j int) bool {
		if w.edits[i].off != w.edits[j].off {
			return w.edits[i].off < w.edits[j].off
		}
		return w.edits[i].seq < w.edits[j].seq
	})
	var b []byte
	pos := 0
	lastDel := -1
	for _, e := range w.edits {
		if e.off < pos {
			// inside a deleted range: keep only the replacement text anchored at its start
			if e.off == lastDel && e.del == 0 {
				b = append(b, e.text...)
			}
			continue
		}
		b = append(b, w.src[pos:e.off]...)
		b = append(b, e.text...)
		pos = e.off + e.del
		if e.del > 0 {
			lastDel = e.off
		}
	}
	b = append(b, w.src[pos:]...)
	return b
}

func (w *fileWeaver) site(p token.Pos, kind string) string {
	fn := "init"
	for _, f := range w.funcs {
		if f.Pos() <= p && p < f.End() {
			fn = f.Name.Name
			if f.Recv != nil && len(f.Recv.List) > 0 {
				t := f.Recv.List[0].Type
				if s, ok := t.(*ast.StarExpr); ok {
					t = s.X
				}
				if ix, ok := t.(*ast.IndexExpr); ok {
					t = ix.X
				}
				if ix, ok := t.(*ast.IndexListExpr); ok {
					t = ix.X
				}
				if id, ok := t.(*ast.Ident); ok {
					fn = id.Name + "." + fn
				}
			}
		}
	}
	w.stats[kind]++
	name := fmt.Sprintf("%s.%s:%d:%s", w.pkg.Name, fn, w.tf.Line(p), kind)
	allSites = append(allSites, name)
	return fmt.Sprintf("%q", name)
}

func (w *fileWeaver) weave() {
	for _, d := range w.file.Decls {
		if f, ok := d.(*ast.FuncDecl); ok {
			w.funcs = append(w.funcs, f)
		}
	}
	ast.Inspect(w.file, func(n ast.Node) bool {
		switch x := n.(type) {
		case *ast.BlockStmt:
			w.list(x.List)
		case *ast.CaseClause:
			w.list(x.Body)
		case *ast.CommClause:
			w.list(x.Body)
		case *ast.CallExpr:
			// sync.WaitGroup: Add/Done/Wait also update the simulator's shadow of the counter, which reports an Add
			// that starts a new round while a Wait of the previous round has not returned (the runtime panics on
			// that only if the timing is right)
			if ptr, m, ok := w.wgCall(x); ok {
				w.delRange(x.Pos(), x.Lparen+1)
				if m == "Add" {
					w.ins(x.Pos(), "simrt.WG"+m+"("+ptr+", ")
				} else {
					w.ins(x.Pos(), "simrt.WG"+m+"("+ptr)
				}
				w.stats["waitgroup"]++
				return true
			}
			// sync.Pool: Get/Put go through the simulator's deterministic model of the pool (which buffer a Get
			// returns would otherwise depend on the P the goroutine happens to run on and on GC timing)
			if sel, ok := x.Fun.(*ast.SelectorExpr); ok && (sel.Sel.Name == "Get" || sel.Sel.Name == "Put") {
				if fn, ok := w.pkg.TypesInfo.Uses[sel.Sel].(*types.Func); ok && fn.Pkg() != nil && fn.Pkg().Path() == "sync" {
					if recv := fn.Type().(*types.Signature).Recv(); recv != nil && strings.HasSuffix(recv.Type().String(), "sync.Pool") {
						ptr := "(" + w.text(sel.X) + ")"
						if _, isPtr := w.pkg.TypesInfo.TypeOf(sel.X).(*types.Pointer); !isPtr {
							ptr = "&" + ptr
						}
						w.delRange(x.Pos(), x.Lparen+1)
						if sel.Sel.Name == "Get" {
							w.ins(x.Pos(), "simrt.PoolGet("+ptr)
						} else {
							w.ins(x.Pos(), "simrt.PoolPut("+ptr+", ")
						}
						w.stats["pool"]++
					}
				}
			}
			if w.simos {
				if sel, ok := x.Fun.(*ast.SelectorExpr); ok {
					if id, ok := sel.X.(*ast.Ident); ok {
						if pn, ok := w.pkg.TypesInfo.Uses[id].(*types.PkgName); ok && pn.Imported().Path() == "os" && simosFuncs[sel.Sel.Name] {
							w.delRange(id.Pos(), id.End())
							w.ins(id.Pos(), "simos")
							w.usedSimos = true
							w.stats["simos"]++
						}
					}
				}
			}
		}
		return true
	})
	if len(w.edits) == 0 {
		return
	}
	imp := `; import simrt "verif/simrt"`
	tail := "\nvar _ = simrt.Active\n"
	if w.usedSimos {
		imp += `; import simos "verif/simos"`
		tail += "var _ os.FileMode\nvar _ = simos.Active\n"
	}
	w.ins(w.file.Name.End(), imp)
	w.ins(w.tf.Pos(w.tf.Size()), tail)
}

const (
	cNone = iota
	cYield
	cBlock
)

// classify a call expression.
func (w *fileWeaver) classCall(call *ast.CallExpr) int {
	info := w.pkg.TypesInfo
	if id, ok := call.Fun.(*ast.Ident); ok {
		if b, ok := info.Uses[id].(*types.Builtin); ok {
			if b.Name() == "close" {
				return cYield
			}
			return cNone
		}
	}
	if tv, ok := info.Types[call.Fun]; ok && tv.IsType() {
		return cNone // conversion
	}
	if _, ok := call.Fun.(*ast.FuncLit); ok {
		return cNone
	}
	obj := typeutil.Callee(info, call)
	switch o := obj.(type) {
	case nil:
		return cBlock // call of a func-typed expression (field, result of a call, ...)
	case *types.Var:
		return cBlock // func value: callback
	case *types.Func:
		sig := o.Type().(*types.Signature)
		pkgPath := ""
		if o.Pkg() != nil {
			pkgPath = o.Pkg().Path()
		}
		if recv := sig.Recv(); recv != nil {
			rt := recv.Type()
			if types.IsInterface(rt) {
				return cBlock
			}
			if p, ok := rt.(*types.Pointer); ok {
				rt = p.Elem()
			}
			tn := ""
			if nt, ok := rt.(*types.Named); ok {
				tn = nt.Obj().Name()
			}
			switch pkgPath {
			case "sync":
				switch tn {
				case "WaitGroup":
					if o.Name() == "Wait" {
						return cBlock
					}
					return cYield
				case "Once":
					return cBlock
				case "Cond":
					if o.Name() == "Wait" {
						return cBlock
					}
					return cYield
				default:
					return cYield
				}
			case "sync/atomic":
				return cYield
			case "io", "bufio":
				return cBlock
			case "time":
				return cYield
			}
			if pkgPath == w.pkg.PkgPath {
				return cNone
			}
			if isStd(pkgPath) {
				return cNone
			}
			return cBlock
		}
		switch pkgPath {
		case "sync/atomic":
			return cYield
		case "io", "bufio":
			return cBlock
		case "time":
			if o.Name() == "Sleep" {
				return cBlock
			}
			return cNone
		}
		if pkgPath == w.pkg.PkgPath || isStd(pkgPath) {
			return cNone
		}
		return cBlock
	}
	return cNone
}

func isStd(path string) bool {
	if path == "" {
		return true
	}
	first := path
	if i := strings.Index(path, "/"); i >= 0 {
		first = path[:i]
	}
	return !strings.Contains(first, ".")
}

// classify an expression tree (not descending into function literals).
func (w *fileWeaver) classExpr(e ast.Node) int {
	c := cNone
	if e == nil {
		return c
	}
	ast.Inspect(e, func(n ast.Node) bool {
		switch x := n.(type) {
		case *ast.FuncLit:
			return false
		case *ast.UnaryExpr:
			if x.Op == token.ARROW {
				c = cBlock
			}
		case *ast.CallExpr:
			if k := w.classCall(x); k > c {
				c = k
			}
		}
		return true
	})
	return c
}

// syncLockCall recognises x.Lock()/RLock()/Unlock()/RUnlock() on sync.Mutex / sync.RWMutex.
func (w *fileWeaver) syncLockCall(e ast.Expr) (ptr string, method string, ok bool) {
	call, isCall := e.(*ast.CallExpr)
	if !isCall {
		return
	}
	sel, isSel := call.Fun.(*ast.SelectorExpr)
	if !isSel {
		return
	}
	fn, isFn := w.pkg.TypesInfo.Uses[sel.Sel].(*types.Func)
	if !isFn || fn.Pkg() == nil || fn.Pkg().Path() != "sync" {
		return
	}
	switch fn.Name() {
	case "Lock", "RLock", "Unlock", "RUnlock":
	default:
		return
	}
	recv := fn.Type().(*types.Signature).Recv()
	if recv == nil {
		return
	}
	rt := recv.Type()
	if p, isP := rt.(*types.Pointer); isP {
		rt = p.Elem()
	}
	nt, isN := rt.(*types.Named)
	if !isN || (nt.Obj().Name() != "Mutex" && nt.Obj().Name() != "RWMutex") {
		return
	}
	xt := w.pkg.TypesInfo.TypeOf(sel.X)
	ptr = w.text(sel.X)
	if _, isPtr := xt.Underlying().(*types.Pointer); !isPtr {
		ptr = "&" + ptr
	}
	return ptr, fn.Name(), true
}

// lockRecvImpure reports whether the receiver of a sync Lock/Unlock call contains a call (`a.get(k).Lock()`):
// such a receiver must be evaluated once - the model call and the real call have to see the same mutex, and the
// expression may have effects.
func (w *fileWeaver) lockRecvImpure(e ast.Expr) bool {
	call, ok := e.(*ast.CallExpr)
	if !ok {
		return false
	}
	sel, ok := call.Fun.(*ast.SelectorExpr)
	if !ok {
		return false
	}
	impure := false
	ast.Inspect(sel.X, func(n ast.Node) bool {
		switch n.(type) {
		case *ast.CallExpr, *ast.UnaryExpr:
			if u, isU := n.(*ast.UnaryExpr); isU && u.Op != token.ARROW {
				return true
			}
			impure = true
		}
		return true
	})
	return impure
}

func mode(method string) string {
	if method == "RLock" || method == "RUnlock" {
		return "simrt.R"
	}
	return "simrt.W"
}

// wgCall recognises a method call on a sync.WaitGroup: pointer expression, method name.
func (w *fileWeaver) wgCall(e ast.Expr) (string, string, bool) {
	call, ok := e.(*ast.CallExpr)
	if !ok {
		return "", "", false
	}
	sel, ok := call.Fun.(*ast.SelectorExpr)
	if !ok {
		return "", "", false
	}
	fn, ok := w.pkg.TypesInfo.Uses[sel.Sel].(*types.Func)
	if !ok || fn.Pkg() == nil || fn.Pkg().Path() != "sync" {
		return "", "", false
	}
	recv := fn.Type().(*types.Signature).Recv()
	if recv == nil || !strings.HasSuffix(recv.Type().String(), "sync.WaitGroup") {
		return "", "", false
	}
	switch fn.Name() {
	case "Add", "Done", "Wait":
	default:
		return "", "", false
	}
	ptr := "(" + w.text(sel.X) + ")"
	if _, isPtr := w.pkg.TypesInfo.TypeOf(sel.X).(*types.Pointer); !isPtr {
		ptr = "&" + ptr
	}
	return ptr, fn.Name(), true
}

func (w *fileWeaver) isWaitGroupWait(e ast.Expr) bool {
	call, ok := e.(*ast.CallExpr)
	if !ok {
		return false
	}
	if fn, ok := typeutil.Callee(w.pkg.TypesInfo, call).(*types.Func); ok && fn.Pkg() != nil && fn.Pkg().Path() == "sync" && fn.Name() == "Wait" {
		return true
	}
	return false
}

func (w *fileWeaver) list(stmts []ast.Stmt) {
	for _, st := range stmts {
		w.stmt(st)
	}
}

func (w *fileWeaver) stmt(outer ast.Stmt) {
	st := outer
	labeled := false
	for {
		if l, ok := st.(*ast.LabeledStmt); ok {
			st = l.Stmt
			labeled = true
			continue
		}
		break
	}
	before := func(s string) { w.ins(outer.Pos(), s) }
	after := func(s string) { w.ins(outer.End(), s) }
	switch x := st.(type) {
	case *ast.ExprStmt:
		if ptr, m, ok := w.syncLockCall(x.X); ok {
			if w.lockRecvImpure(x.X) {
				w.n++
				v := fmt.Sprintf("_siml%d", w.n)
				w.delRange(x.Pos(), x.End())
				switch m {
				case "Lock", "RLock":
					w.ins(x.Pos(), fmt.Sprintf("{ %s := %s; simrt.BeforeLock(%s, %s, %s); %s.%s() }", v, ptr, v, mode(m), w.site(x.Pos(), "lock"), v, m))
				default:
					s := w.site(x.Pos(), "unlock")
					w.ins(x.Pos(), fmt.Sprintf("{ %s := %s; simrt.BeforeUnlock(%s, %s, %s); %s.%s(); simrt.AfterUnlock(%s) }", v, ptr, v, mode(m), s, v, m, s))
				}
				return
			}
			switch m {
			case "Lock", "RLock":
				before(fmt.Sprintf("simrt.BeforeLock(%s, %s, %s); ", ptr, mode(m), w.site(x.Pos(), "lock")))
			default:
				s := w.site(x.Pos(), "unlock")
				before(fmt.Sprintf("simrt.BeforeUnlock(%s, %s, %s); ", ptr, mode(m), s))
				after(fmt.Sprintf("; simrt.AfterUnlock(%s)", s))
			}
			return
		}
		w.simple(outer, x, "op")
		if ptr, m, ok := w.wgCall(x.X); ok && m == "Wait" {
			after(fmt.Sprintf("; simrt.WGLeft(%s)", ptr))
		}
	case *ast.SendStmt:
		s := w.site(x.Pos(), "send")
		before(fmt.Sprintf("simrt.Pre(%s); ", s))
		after(fmt.Sprintf("; simrt.Post(%s)", s))
	case *ast.AssignStmt, *ast.IncDecStmt, *ast.DeclStmt:
		w.simple(outer, st, "op")
	case *ast.ReturnStmt:
		if len(x.Results) == 1 {
			if u, ok := x.Results[0].(*ast.UnaryExpr); ok && u.Op == token.ARROW {
				s := w.site(x.Pos(), "recv")
				w.n++
				before(fmt.Sprintf("{ simrt.Pre(%s); _simr%d := %s; simrt.Post(%s); return _simr%d }; ", s, w.n, w.text(u), s, w.n))
				// the original return becomes unreachable but stays valid
				return
			}
		}
		switch w.classExpr(x) {
		case cBlock:
			before(fmt.Sprintf("simrt.Pre(%s); ", w.site(x.Pos(), "ret")))
		case cYield:
			before(fmt.Sprintf("simrt.Yield(%s); ", w.site(x.Pos(), "ret")))
		case cNone:
			if !labeled && w.refsGlobal(x) {
				before(fmt.Sprintf("simrt.Yield(%s); ", w.site(x.Pos(), "glob")))
			} else if !labeled && w.touchesShared(x) {
				before(fmt.Sprintf("simrt.YieldMem(%s); ", w.site(x.Pos(), "mem")))
			}
		}
	case *ast.SelectStmt:
		hasDefault := false
		for _, c := range x.Body.List {
			if c.(*ast.CommClause).Comm == nil {
				hasDefault = true
			}
		}
		if hasDefault {
			before(fmt.Sprintf("simrt.Yield(%s); ", w.site(x.Pos(), "selectd")))
			return
		}
		s := w.site(x.Pos(), "select")
		before(fmt.Sprintf("simrt.Pre(%s); ", s))
		for _, c := range x.Body.List {
			cc := c.(*ast.CommClause)
			w.ins(cc.Colon+1, fmt.Sprintf(" simrt.Post(%s);", s))
		}
	case *ast.GoStmt:
		w.n++
		n := w.n
		s := w.site(x.Pos(), "go")
		if fl, ok := x.Call.Fun.(*ast.FuncLit); ok {
			before(fmt.Sprintf("_simg%d := simrt.GoSpawn(%s); ", n, s))
			w.ins(fl.Body.Lbrace+1, fmt.Sprintf(" simrt.GoStart(_simg%d); defer simrt.GoExit(_simg%d);", n, n))
			return
		}
		// non-literal callee: bind the arguments at `go` time, call inside a literal
		var names, vals []string
		for i, a := range x.Call.Args {
			names = append(names, fmt.Sprintf("_sima%d_%d", n, i))
			vals = append(vals, w.text(a))
		}
		pre := fmt.Sprintf("_simg%d := simrt.GoSpawn(%s); ", n, s)
		if len(names) > 0 {
			pre += strings.Join(names, ", ") + " := " + strings.Join(vals, ", ") + "; "
		}
		ell := ""
		if x.Call.Ellipsis.IsValid() {
			ell = "..."
		}
		repl := fmt.Sprintf("%sgo func() { simrt.GoStart(_simg%d); defer simrt.GoExit(_simg%d); %s(%s%s) }()", pre, n, n, w.text(x.Call.Fun), strings.Join(names, ", "), ell)
		w.delRange(x.Pos(), x.End())
		w.ins(x.Pos(), repl)
	case *ast.DeferStmt:
		if ptr, m, ok := w.syncLockCall(x.Call); ok && (m == "Lock" || m == "RLock") {
			// `defer x.Lock()` (re-taking a lock on the way out): the model has to see it like any other acquisition
			s := w.site(x.Pos(), "dlock")
			w.delRange(x.Pos(), x.End())
			if w.lockRecvImpure(x.Call) {
				w.n++
				v := fmt.Sprintf("_siml%d", w.n)
				w.ins(x.Pos(), fmt.Sprintf("%s := %s; defer func() { simrt.BeforeLock(%s, %s, %s); %s.%s() }()", v, ptr, v, mode(m), s, v, m))
				return
			}
			w.ins(x.Pos(), fmt.Sprintf("defer func() { simrt.BeforeLock(%s, %s, %s); %s }()", ptr, mode(m), s, w.text(x.Call)))
			return
		}
		if ptr, m, ok := w.syncLockCall(x.Call); ok && (m == "Unlock" || m == "RUnlock") {
			// `defer x.Unlock()` becomes a deferred literal: model release, real unlock, then a scheduling
			// point (what runs after a deferred unlock — other defers, the caller — is an interleaving
			// point like any other)
			s := w.site(x.Pos(), "dunlock")
			w.delRange(x.Pos(), x.End())
			if w.lockRecvImpure(x.Call) {
				w.n++
				v := fmt.Sprintf("_siml%d", w.n)
				w.ins(x.Pos(), fmt.Sprintf("%s := %s; defer func() { simrt.BeforeUnlock(%s, %s, %s); %s.%s(); simrt.AfterUnlock(%s) }()", v, ptr, v, mode(m), s, v, m, s))
				return
			}
			w.ins(x.Pos(), fmt.Sprintf("defer func() { simrt.BeforeUnlock(%s, %s, %s); %s; simrt.AfterUnlock(%s) }()", ptr, mode(m), s, w.text(x.Call), s))
			return
		}
		if w.isWaitGroupWait(x.Call) {
			s := w.site(x.Pos(), "dwait")
			w.delRange(x.Pos(), x.End())
			if ptr, _, ok := w.wgCall(x.Call); ok {
				w.ins(x.Pos(), fmt.Sprintf("defer func() { simrt.Pre(%s); simrt.WGWait(%s); simrt.Post(%s); simrt.WGLeft(%s) }()", s, ptr, s, ptr))
				return
			}
			w.ins(x.Pos(), fmt.Sprintf("defer func() { simrt.Pre(%s); %s; simrt.Post(%s) }()", s, w.text(x.Call), s))
			return
		}
	case *ast.IfStmt:
		if labeled {
			return
		}
		w.ifStmt(x)
	case *ast.SwitchStmt:
		if x.Init != nil && !labeled && w.classExpr(x.Init) == cBlock {
			w.hoistInit(x, x.Init, x.Tag, x.Body.Lbrace)
			return
		}
		if c := w.classExpr(x.Tag); c == cBlock {
			before(fmt.Sprintf("simrt.Pre(%s); ", w.site(x.Pos(), "switch")))
		}
	case *ast.ForStmt:
		if x.Cond != nil && w.classExpr(x.Cond) != cNone {
			w.ins(x.Body.Lbrace+1, fmt.Sprintf(" simrt.Yield(%s);", w.site(x.Pos(), "for")))
		} else if x.Cond != nil && w.refsGlobal(x.Cond) {
			w.ins(x.Body.Lbrace+1, fmt.Sprintf(" simrt.Yield(%s);", w.site(x.Pos(), "glob")))
		}
	case *ast.RangeStmt:
		if t := w.pkg.TypesInfo.TypeOf(x.X); t != nil {
			if _, ok := t.Underlying().(*types.Map); ok && !labeled && w.classExpr(x.X) == cNone && (x.Tok == token.DEFINE || x.Key == nil) {
				// map iteration order is a source of nondeterminism: iterate over sorted keys
				w.n++
				n := w.n
				xs := w.text(x.X)
				w.delRange(x.Pos(), x.Body.Lbrace)
				w.ins(x.Pos(), fmt.Sprintf("for _, _simk%d := range simrt.MapKeys(%s) ", n, xs))
				var b strings.Builder
				isBlank := func(e ast.Expr) bool {
					if e == nil {
						return true
					}
					id, ok := e.(*ast.Ident)
					return ok && id.Name == "_"
				}
				if !isBlank(x.Key) {
					fmt.Fprintf(&b, " %s := _simk%d; _ = %s;", w.text(x.Key), n, w.text(x.Key))
				}
				if !isBlank(x.Value) {
					fmt.Fprintf(&b, " %s, _simok%d := (%s)[_simk%d]; if !_simok%d { continue };", w.text(x.Value), n, xs, n, n)
				} else {
					fmt.Fprintf(&b, " if _, _simok%d := (%s)[_simk%d]; !_simok%d { continue };", n, xs, n, n)
				}
				w.ins(x.Body.Lbrace+1, b.String())
				w.stats["maprange"]++
				return
			}
			if _, isChan := t.Underlying().(*types.Chan); !isChan && !labeled && w.classExpr(x.X) == cNone && w.refsGlobal(x.X) {
				w.ins(x.Body.Lbrace+1, fmt.Sprintf(" simrt.Yield(%s);", w.site(x.Pos(), "glob")))
			}
			if _, ok := t.Underlying().(*types.Chan); ok {
				s := w.site(x.Pos(), "rangech")
				before(fmt.Sprintf("simrt.Pre(%s); ", s))
				w.ins(x.Body.Lbrace+1, fmt.Sprintf(" simrt.Post(%s);", s))
				// re-arm before the next receive
				w.ins(x.Body.Rbrace, fmt.Sprintf("; simrt.Pre(%s) ", s))
				after(fmt.Sprintf("; simrt.Post(%s)", s))
			}
		}
	}
}

// simple statements: Pre/Post (or Yield) around, depending on what they contain.
func (w *fileWeaver) simple(outer ast.Stmt, st ast.Node, kind string) {
	switch w.classExpr(st) {
	case cBlock:
		s := w.site(st.Pos(), kind)
		w.ins(outer.Pos(), fmt.Sprintf("simrt.Pre(%s); ", s))
		w.ins(outer.End(), fmt.Sprintf("; simrt.Post(%s)", s))
	case cYield:
		w.ins(outer.Pos(), fmt.Sprintf("simrt.Yield(%s); ", w.site(st.Pos(), "atomic")))
		if w.refsGlobal(st) {
			w.ins(outer.End(), fmt.Sprintf("; simrt.Yield(%s)", w.site(st.Pos(), "glob")))
		}
	case cNone:
		// a statement that reads or writes package-level state of the package under test: unsynchronised
		// shared memory is an interleaving point too (before the access, and after it while its result
		// may still alias the shared object)
		if _, isLabeled := outer.(*ast.LabeledStmt); !isLabeled && w.refsGlobal(st) {
			s := w.site(st.Pos(), "glob")
			w.ins(outer.Pos(), fmt.Sprintf("simrt.Yield(%s); ", s))
			w.ins(outer.End(), fmt.Sprintf("; simrt.Yield(%s)", s))
		} else if !isLabeled && w.touchesShared(st) {
			// plain memory reachable by other goroutines (fields, elements, pointees): a scheduling point
			// in the runs that ask for them — this is what lets a removed or narrowed lock show
			w.ins(outer.Pos(), fmt.Sprintf("simrt.YieldMem(%s); ", w.site(st.Pos(), "mem")))
		}
	}
}

// touchesShared reports whether the node reads or writes a struct field, an element of a slice, array
// or map, or a pointee (over-approximation of "memory another goroutine may reach").
func (w *fileWeaver) touchesShared(n ast.Node) bool {
	found := false
	ast.Inspect(n, func(n ast.Node) bool {
		if found {
			return false
		}
		switch x := n.(type) {
		case *ast.FuncLit:
			return false
		case *ast.SelectorExpr:
			if sel, ok := w.pkg.TypesInfo.Selections[x]; ok && sel.Kind() == types.FieldVal {
				found = true
			}
		case *ast.IndexExpr:
			if t := w.pkg.TypesInfo.TypeOf(x.X); t != nil {
				switch t.Underlying().(type) {
				case *types.Slice, *types.Map, *types.Array, *types.Pointer:
					found = true
				}
			}
		case *ast.StarExpr:
			if tv, ok := w.pkg.TypesInfo.Types[x]; ok && tv.IsValue() {
				found = true
			}
		}
		return !found
	})
	return found
}

// refsGlobal reports whether the node mentions a package-level variable of the package being woven
// (mutable shared state: not constants, functions, interface-typed sentinels such as errors, or
// the sync primitives that have their own treatment).
func (w *fileWeaver) refsGlobal(n ast.Node) bool {
	found := false
	ast.Inspect(n, func(n ast.Node) bool {
		if found {
			return false
		}
		if _, ok := n.(*ast.FuncLit); ok {
			return false
		}
		id, ok := n.(*ast.Ident)
		if !ok {
			return true
		}
		v, ok := w.pkg.TypesInfo.Uses[id].(*types.Var)
		if !ok || v.IsField() || v.Pkg() == nil || v.Pkg() != w.pkg.Types || v.Parent() != w.pkg.Types.Scope() {
			return true
		}
		t := v.Type()
		if types.IsInterface(t) {
			return true
		}
		if _, isSig := t.Underlying().(*types.Signature); isSig {
			return true
		}
		if nt, ok := t.(*types.Named); ok && nt.Obj().Pkg() != nil {
			switch nt.Obj().Pkg().Path() {
			case "sync", "sync/atomic":
				return true
			}
		}
		found = true
		return false
	})
	return found
}

func (w *fileWeaver) ifStmt(x *ast.IfStmt) {
	if x.Init != nil && w.classExpr(x.Init) == cBlock {
		w.hoistInit(x, x.Init, x.Cond, x.Body.Lbrace)
		return
	}
	switch w.classExpr(x.Cond) {
	case cBlock:
		w.ins(x.Pos(), fmt.Sprintf("simrt.Pre(%s); ", w.site(x.Pos(), "if")))
	case cYield:
		w.ins(x.Pos(), fmt.Sprintf("simrt.Yield(%s); ", w.site(x.Pos(), "if")))
	}
	if x.Init != nil && w.classExpr(x.Init) == cYield && w.classExpr(x.Cond) == cNone {
		w.ins(x.Pos(), fmt.Sprintf("simrt.Yield(%s); ", w.site(x.Pos(), "if")))
	}
	if w.classExpr(x.Cond) == cNone && (x.Init == nil || w.classExpr(x.Init) == cNone) && (w.refsGlobal(x.Cond) || (x.Init != nil && w.refsGlobal(x.Init))) {
		w.ins(x.Pos(), fmt.Sprintf("simrt.Yield(%s); ", w.site(x.Pos(), "glob")))
	} else if w.classExpr(x.Cond) == cNone && (x.Init == nil || w.classExpr(x.Init) == cNone) && (w.touchesShared(x.Cond) || (x.Init != nil && w.touchesShared(x.Init))) {
		w.ins(x.Pos(), fmt.Sprintf("simrt.YieldMem(%s); ", w.site(x.Pos(), "mem")))
	}
	// `else if` chains are reached through ast.Inspect only as nested IfStmt in Else; handle here
	if e, ok := x.Else.(*ast.IfStmt); ok {
		_ = e // conditions of else-if are left alone (cannot insert a statement there)
	}
}

// `if init; cond {…}` → `{ Pre; init; Post; if cond {…} }` (same scoping).
func (w *fileWeaver) hoistInit(stmt ast.Stmt, init ast.Stmt, next ast.Expr, lbrace token.Pos) {
	s := w.site(stmt.Pos(), "init")
	kw := "if "
	if _, ok := stmt.(*ast.SwitchStmt); ok {
		kw = "switch "
	}
	nextPos := lbrace
	if next != nil {
		nextPos = next.Pos()
	}
	w.ins(stmt.Pos(), fmt.Sprintf("{ simrt.Pre(%s); %s; simrt.Post(%s); %s", s, w.text(init), s, kw))
	w.delRange(stmt.Pos(), nextPos)
	w.ins(stmt.End(), " }")
}
