#!/bin/bash
# thorough tier of the listed checks (VERIF_RUNS / VERIF_WORKERS / VERIF_SEED pass through): tools/thorough_some.sh C12 C15 ...
cd "$(dirname "$0")/.."
for p in "$@"; do
  VERIF_SEED=${VERIF_SEED:-31} ./check $p thorough > /tmp/thorough-$p.log 2>&1
  echo "$p exit=$? $(tail -1 /tmp/thorough-$p.log | cut -c1-300)"
  grep -h "VIOLATION\|KNOWN-FINDING\|^check:" /tmp/thorough-$p.log | cut -c1-200
  rm -f /tmp/thorough-$p.log
done
