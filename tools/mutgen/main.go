// mutgen lists small syntactic mutants of one Go file as byte-range replacements (JSON on stdout).
// It is the generator behind tools/mutsweep.py, the systematic sensitivity self-test of the checks:
// every mutant that still compiles and still passes the package's own tests is run against the
// check of the property the file is anchored in.
//
//	mutgen <file.go>
package main

import (
	"encoding/json"
	"fmt"
	"go/ast"
	"go/parser"
	"go/token"
	"os"
	"strings"
)

type mutant struct {
	Op    string `json:"op"`
	Line  int    `json:"line"`
	Start int    `json:"start"`
	End   int    `json:"end"`
	Repl  string `json:"repl"`
	Desc  string `json:"desc"`
	Func  string `json:"func"`
}

func main() {
	file := os.Args[1]
	src, err := os.ReadFile(file)
	if err != nil {
		panic(err)
	}
	fset := token.NewFileSet()
	f, err := parser.ParseFile(fset, file, src, parser.ParseComments)
	if err != nil {
		panic(err)
	}
	var out []mutant
	off := func(p token.Pos) int { return fset.Position(p).Offset }
	text := func(a, b token.Pos) string { return string(src[off(a):off(b)]) }
	curFunc := ""
	add := func(op string, at token.Pos, a, b token.Pos, repl, desc string) {
		out = append(out, mutant{Op: op, Line: fset.Position(at).Line, Start: off(a), End: off(b), Repl: repl, Desc: desc, Func: curFunc})
	}
	swap := map[token.Token]string{token.LSS: "<=", token.LEQ: "<", token.GTR: ">=", token.GEQ: ">", token.EQL: "!=", token.NEQ: "==",
		token.LAND: "||", token.LOR: "&&", token.ADD: "-", token.SUB: "+"}
	var visitStmtList func(list []ast.Stmt)
	visitStmtList = func(list []ast.Stmt) {
		for _, st := range list {
			switch s := st.(type) {
			case *ast.ExprStmt:
				if call, ok := s.X.(*ast.CallExpr); ok {
					name := text(call.Fun.Pos(), call.Fun.End())
					if name == "panic" {
						continue
					}
					add("del-call", s.Pos(), s.Pos(), s.End(), "_ = 0", "delete call "+name+"(...)")
				}
			case *ast.DeferStmt:
				name := text(s.Call.Fun.Pos(), s.Call.Fun.End())
				if !strings.HasPrefix(name, "func") {
					add("del-defer", s.Pos(), s.Pos(), s.End(), "_ = 0", "delete defer "+name+"(...)")
					add("undefer", s.Pos(), s.Pos(), s.Call.Pos(), "", "run deferred "+name+"(...) immediately")
				}
			case *ast.GoStmt:
				name := text(s.Call.Fun.Pos(), s.Call.Fun.End())
				if len(name) > 30 {
					name = name[:30]
				}
				add("ungo", s.Pos(), s.Pos(), s.Call.Pos(), "", "call "+name+" synchronously instead of in a goroutine")
			case *ast.AssignStmt:
				if s.Tok == token.ASSIGN && len(s.Lhs) == 1 {
					add("del-assign", s.Pos(), s.Pos(), s.End(), "_ = 0", "delete assignment "+text(s.Pos(), s.End()))
				}
				if s.Tok == token.ADD_ASSIGN {
					add("assign-op", s.Pos(), s.TokPos, s.TokPos+2, "-=", "+= becomes -=")
				}
			case *ast.IncDecStmt:
				add("del-incdec", s.Pos(), s.Pos(), s.End(), "_ = 0", "delete "+text(s.Pos(), s.End()))
			case *ast.BranchStmt:
				if s.Label == nil && (s.Tok == token.CONTINUE || s.Tok == token.BREAK) {
					other := "break"
					if s.Tok == token.BREAK {
						other = "continue"
					}
					add("branch", s.Pos(), s.Pos(), s.End(), other, s.Tok.String()+" becomes "+other)
				}
			case *ast.ReturnStmt:
				// an early return without results inside a nested block: drop it (fall through)
				if len(s.Results) == 0 {
					add("del-return", s.Pos(), s.Pos(), s.End(), "_ = 0", "delete early return")
				}
			}
		}
	}
	ast.Inspect(f, func(n ast.Node) bool {
		switch x := n.(type) {
		case *ast.FuncDecl:
			curFunc = x.Name.Name
			if x.Recv != nil && len(x.Recv.List) > 0 {
				curFunc = text(x.Recv.List[0].Type.Pos(), x.Recv.List[0].Type.End()) + "." + curFunc
			}
		case *ast.BlockStmt:
			visitStmtList(x.List)
		case *ast.CaseClause:
			visitStmtList(x.Body)
		case *ast.CommClause:
			visitStmtList(x.Body)
			if x.Comm != nil {
				// a select arm that can never fire
				add("dead-arm", x.Pos(), x.Comm.Pos(), x.Comm.End(), "<-(chan struct{})(nil)", "select arm `"+text(x.Comm.Pos(), x.Comm.End())+"` never fires")
			}
		case *ast.IfStmt:
			c := text(x.Cond.Pos(), x.Cond.End())
			add("neg-if", x.Pos(), x.Cond.Pos(), x.Cond.End(), "!("+c+")", "negate condition `"+c+"`")
			add("if-false", x.Pos(), x.Cond.Pos(), x.Cond.End(), "("+c+") && false", "condition `"+c+"` never true")
			add("if-true", x.Pos(), x.Cond.Pos(), x.Cond.End(), "("+c+") || true", "condition `"+c+"` always true")
		case *ast.ForStmt:
			if x.Cond != nil {
				c := text(x.Cond.Pos(), x.Cond.End())
				add("neg-for", x.Pos(), x.Cond.Pos(), x.Cond.End(), "("+c+") && false", "loop condition `"+c+"` never true")
			}
		case *ast.BinaryExpr:
			if r, ok := swap[x.Op]; ok {
				// skip string concatenation
				if x.Op == token.ADD {
					if bl, ok := x.X.(*ast.BasicLit); ok && bl.Kind == token.STRING {
						return true
					}
					if bl, ok := x.Y.(*ast.BasicLit); ok && bl.Kind == token.STRING {
						return true
					}
				}
				add("binop", x.OpPos, x.OpPos, x.OpPos+token.Pos(len(x.Op.String())), r, fmt.Sprintf("`%s` becomes `%s` in `%s`", x.Op, r, text(x.Pos(), x.End())))
			}
		case *ast.BasicLit:
			if x.Kind == token.INT && len(x.Value) < 6 && !strings.HasPrefix(x.Value, "0x") {
				add("const", x.Pos(), x.Pos(), x.End(), "("+x.Value+" + 1)", "constant "+x.Value+" becomes "+x.Value+"+1")
			}
		case *ast.UnaryExpr:
			if x.Op == token.NOT {
				add("del-not", x.Pos(), x.OpPos, x.OpPos+1, "", "drop `!` in `"+text(x.Pos(), x.End())+"`")
			}
		case *ast.CallExpr:
			// atomic / sync idioms whose argument or method matters
			if sel, ok := x.Fun.(*ast.SelectorExpr); ok {
				alt := map[string]string{"RLock": "Lock", "RUnlock": "Unlock", "After": "Before", "Before": "After", "Store": "", "CompareAndSwap": ""}
				if r, ok := alt[sel.Sel.Name]; ok && r != "" && len(x.Args) <= 1 {
					if (sel.Sel.Name == "RLock" || sel.Sel.Name == "RUnlock") && len(x.Args) != 0 {
						return true
					}
					if (sel.Sel.Name == "After" || sel.Sel.Name == "Before") && len(x.Args) != 1 {
						return true
					}
					if sel.Sel.Name == "After" && strings.Contains(text(sel.X.Pos(), sel.X.End()), "lock") {
						return true // clock.After(d)
					}
					add("method", sel.Sel.Pos(), sel.Sel.Pos(), sel.Sel.End(), r, "."+sel.Sel.Name+" becomes ."+r)
				}
			}
		}
		return true
	})
	json.NewEncoder(os.Stdout).Encode(out)
}
