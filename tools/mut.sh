#!/bin/bash
# dev helper: apply a patch to /repo, run a check, revert. usage: mut.sh <patch> <ID> [tier]
cd /repo && git apply "$1" || exit 3
cd /verif && ./check $2 ${3:-quick} 2>&1 | cut -c1-600 | head -${4:-12}; echo "exit=${PIPESTATUS[0]}"
cd /repo && git checkout -- . 
