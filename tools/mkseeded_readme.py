#!/usr/bin/env python3
"""Regenerate seeded/README.md from seeded/*/meta.json."""
import glob, json, os
V = "/verif/seeded"
head = """# Seeded changes

Each directory holds a change to dapr/kit written by an independent sub-agent that was given only the
text of one property and a scratch worktree (nothing from /verif): `patch.diff`, the agent's
demonstration (a test that fails with the change and passes without it), its `NOTES.md`, and `meta.json`.
Every change was re-verified here with `tools/seedcheck.sh` (existing tests still pass, demonstration
fails/passes) before our checks were run against it with `VERIF_REPO=<worktree> ./check <id> quick`
(equivalent to `git -C /repo apply patch.diff; ./check <id> quick; git -C /repo checkout -- .`).
`patch-<name>-only.diff` files are the independent hunks of a change, each tested alone as well.
`REGRESSION.md` is the latest run of every patch against the checks as they stand now
(`tools/seeded_regress.py`). Suffixes: none/b = waves 1-3, x/y = wave 4, z = wave 5, w = 6, v = 7, u = 8, t = 9 (lifecycle and clean-up paths), s = 10 (less-travelled API), r = 11 (stale state).

| id | change | needs | caught by (oracles) | missed at first? |
|---|---|---|---|---|
"""
def cell(x):
    return str(x).replace("|", "\\|").replace("\n", " ")
rows = []
for d in sorted(glob.glob(V + "/C*")):
    m = json.load(open(d + "/meta.json"))
    cb = "; ".join("%s: %s" % (k, ", ".join(v) if isinstance(v, list) else v) for k, v in m["caught_by"].items())
    rows.append("| %s | %s | %s | %s | %s |" % (os.path.basename(d), cell(m["change"]), cell(m["needs"]), cell(cb), cell(m.get("missed_at_first", "no"))))
open(V + "/README.md", "w").write(head + "\n".join(rows) + "\n")
print(len(rows), "rows")
