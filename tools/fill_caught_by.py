#!/usr/bin/env python3
"""Fill meta.json 'caught_by' of the given seeded dirs from seeded/regression.json (the oracles that actually fired,
per hunk). Usage: tools/fill_caught_by.py C01t C02t ..."""
import json, sys, os
V = "/verif/seeded"
rows = json.load(open(V + "/regression.json"))
for d in sys.argv[1:]:
    mp = "%s/%s/meta.json" % (V, d)
    if not os.path.exists(mp):
        continue
    m = json.load(open(mp))
    cb = {}
    for name, patch, check, result, sigs in rows:
        if name != d or check == "-" or not result.startswith("caught"):
            continue
        hunk = "all hunks together" if patch == "patch.diff" else patch[len("patch-"):-len("-only.diff")]
        cb.setdefault(check, []).append("%s (%s)" % (sigs, hunk))
    if cb:
        m["caught_by"] = cb
        json.dump(m, open(mp, "w"), indent=1)
        print(d, "ok")
