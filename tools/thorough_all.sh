#!/bin/bash
# runs the thorough tier of every claimed check, one after the other; prints one line per check
cd "$(dirname "$0")/.."
for p in $(python3 -c "import json;print(' '.join(c['property_id'] for c in json.load(open('MANIFEST.json'))['checks']))"); do
  VERIF_SEED=${VERIF_SEED:-11} ./check $p thorough > /tmp/thorough-$p.log 2>&1
  echo "$p exit=$? $(tail -1 /tmp/thorough-$p.log | cut -c1-300)"
  grep -h "VIOLATION\|KNOWN-FINDING\|^check:" /tmp/thorough-$p.log | cut -c1-200
  rm -f /tmp/thorough-$p.log
done
