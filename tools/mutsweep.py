#!/usr/bin/env python3
"""Systematic sensitivity self-test: syntactic mutants of the files each property is anchored in.

  tools/mutsweep.py gate  <ID> [N]   sample N mutants of <ID>'s files, keep those that compile and pass
                                     the repository's whole test suite (with and without -tags unit)
  tools/mutsweep.py check <ID>       run ./check <ID> quick against every surviving mutant
  tools/mutsweep.py report           write mutsweep/REPORT.md

State lives in /verif/mutsweep/<ID>.json. Scratch worktrees under /tmp are removed at the end.
"""
import concurrent.futures as cf
import hashlib, json, os, random, re, subprocess, sys

V = "/verif"
OUT = V + "/mutsweep"
ENV = dict(os.environ, GOFLAGS="-mod=mod", GOPROXY="off", GOSUMDB="off", GOTOOLCHAIN="local")
CLAIMED_EXTRA = {  # files whose behaviour the property also rests on
}


def sh(args, **k):
    return subprocess.run(args, stdout=subprocess.PIPE, stderr=subprocess.STDOUT, text=True, env=k.pop("env", ENV), **k)


def props():
    return {json.loads(l)["id"]: json.loads(l) for l in open(V + "/properties.jsonl")}


def mutgen_bin():
    b = V + "/.work/bin/mutgen"
    src = V + "/tools/mutgen/main.go"
    if not os.path.exists(b) or os.path.getmtime(b) < os.path.getmtime(src):
        os.makedirs(os.path.dirname(b), exist_ok=True)
        r = sh(["go", "build", "-o", b, "main.go"], cwd=V + "/tools/mutgen", env=dict(ENV, GOFLAGS="", GO111MODULE="off"))
        if r.returncode != 0:
            sys.exit("mutgen build failed:\n" + r.stdout)
    return b


def pkgresults(out):
    res = {}
    for l in out.splitlines():
        m = re.match(r"^(ok|FAIL|---|\?)\s+(github.com/dapr/kit\S*)", l)
        if m and m.group(1) in ("ok", "FAIL"):
            res[m.group(2)] = m.group(1)
    return res


_rdeps = {}


def rdeps(pkgdir):
    """the package itself and every package of the module that (transitively) imports it, tests included"""
    if not _rdeps:
        r = sh(["go", "list", "-test", "-tags", "unit", "-f", "{{.ImportPath}}|{{join .Deps \",\"}}", "./..."], cwd="/repo")
        for l in r.stdout.splitlines():
            if "|" not in l:
                continue
            ip, deps = l.split("|", 1)
            ip = ip.split(" ")[0].removesuffix(".test").removesuffix("_test")
            if not ip.startswith("github.com/dapr/kit"):
                continue
            for d in deps.split(",") + [ip]:
                d = d.split(" ")[0]
                if d.startswith("github.com/dapr/kit"):
                    _rdeps.setdefault(d, set()).add(ip)
    me = "github.com/dapr/kit/" + pkgdir.strip("/")
    return sorted("./" + p[len("github.com/dapr/kit/"):] + "/" for p in _rdeps.get(me, {me}) | {me})


def suite(wt, pkgs, base=None):
    """package -> ok/FAIL for the baseline command and for the unit-tag variant, over the packages a change can reach"""
    a = pkgresults(sh(["go", "test", "-vet=off", "-count=1", "-timeout", "60s"] + pkgs, cwd=wt).stdout)
    if base is not None and any(r == "ok" and a.get(p) != "ok" for p, r in base[0].items()):
        return a, {}
    b = pkgresults(sh(["go", "test", "-vet=off", "-count=1", "-timeout", "60s", "-tags", "unit"] + pkgs, cwd=wt).stdout)
    return a, b


def apply(wt, rel, src, m):
    data = src[:m["start"]] + m["repl"].encode() + src[m["end"]:]
    open(os.path.join(wt, rel), "wb").write(data)


def gate(pid, n):
    P = props()[pid]
    files = [f for f in P["anchors"]["files"] if f.endswith(".go") and os.path.exists("/repo/" + f)]
    mb = mutgen_bin()
    allm = []
    for f in files:
        r = subprocess.run([mb, "/repo/" + f], stdout=subprocess.PIPE, text=True)
        for m in (json.loads(r.stdout or "[]") or []):
            m["file"] = f
            m["id"] = hashlib.sha1(("%s:%d:%d:%s" % (f, m["start"], m["end"], m["repl"])).encode()).hexdigest()[:10]
            allm.append(m)
    rnd = random.Random(int(hashlib.sha1(pid.encode()).hexdigest()[:8], 16))
    rnd.shuffle(allm)
    state_file = "%s/%s.json" % (OUT, pid)
    os.makedirs(OUT, exist_ok=True)
    state = json.load(open(state_file)) if os.path.exists(state_file) else {"property": pid, "repo_head": "", "mutants": {}}
    head = sh(["git", "-C", "/repo", "rev-parse", "--short", "HEAD"]).stdout.strip()
    state["repo_head"] = head
    state["generated"] = len(allm)
    todo = [m for m in allm if m["id"] not in state["mutants"]][:n]
    nw = 6
    wts = []
    for i in range(nw):
        wt = "/tmp/mutsweep-%s-%d-%d" % (pid, os.getpid(), i)
        sh(["git", "-C", "/repo", "worktree", "add", "--detach", wt, "HEAD"])
        wts.append(wt)
    bases = {}
    for f in files:
        d = os.path.dirname(f)
        if d not in bases:
            pk = rdeps(d)
            bases[d] = (pk, suite(wts[0], pk))
            print(pid, "baseline", d, len(pk), "packages", {k: v for i in (0, 1) for k, v in bases[d][1][i].items() if v != "ok"}, flush=True)
    import queue
    q = queue.Queue()
    for w in wts:
        q.put(w)

    def one(m):
        wt = q.get()
        try:
            src = open("/repo/" + m["file"], "rb").read()
            apply(wt, m["file"], src, m)
            pk = "./" + os.path.dirname(m["file"]) + "/"
            b = sh(["go", "build", "./..."], cwd=wt)
            if b.returncode != 0:
                return m, "no-compile", ""
            pk, base = bases[os.path.dirname(m["file"])]
            got = suite(wt, pk, base)
            worse = [p for i in (0, 1) for p, r in base[i].items() if r == "ok" and got[i].get(p) != "ok"]
            if worse:
                return m, "killed-by-tests", ",".join(sorted(set(worse)))[:200]
            return m, "survives-tests", ""
        finally:
            sh(["git", "-C", wt, "checkout", "--", "."])
            q.put(wt)

    try:
        with cf.ThreadPoolExecutor(nw) as ex:
            for m, verdict, info in ex.map(one, todo):
                m["gate"] = verdict
                m["gate_info"] = info
                state["mutants"][m["id"]] = m
                print(pid, m["file"], m["line"], m["op"], verdict, info, flush=True)
    finally:
        for wt in wts:
            sh(["git", "-C", "/repo", "worktree", "remove", "--force", wt])
        sh(["git", "-C", "/repo", "worktree", "prune"])
        json.dump(state, open(state_file, "w"), indent=1)


def check(pid, recheck=False):
    state_file = "%s/%s.json" % (OUT, pid)
    state = json.load(open(state_file))
    wt = "/tmp/mutsweep-%s-%d-c" % (pid, os.getpid())
    sh(["git", "-C", "/repo", "worktree", "add", "--detach", wt, "HEAD"])
    try:
        for m in state["mutants"].values():
            if m.get("gate") != "survives-tests":
                continue
            if "check" in m and not (recheck and (m["check"] == "missed" or str(m["check"]).startswith("exit"))):
                continue
            src = open("/repo/" + m["file"], "rb").read()
            apply(wt, m["file"], src, m)
            r = subprocess.run([V + "/check", pid, "quick"], stdout=subprocess.PIPE, stderr=subprocess.STDOUT, text=True,
                               env=dict(ENV, VERIF_REPO=wt), cwd=V)
            sigs = sorted(set(re.findall(r"signature=(\S+)", r.stdout)))
            m["check"] = "caught" if r.returncode == 1 else ("missed" if r.returncode == 0 else "exit-%d" % r.returncode)
            m["oracles"] = sigs
            if r.returncode not in (0, 1):
                m["check_tail"] = r.stdout[-600:]
            print(pid, m["file"], m["line"], m["op"], m["desc"][:70], "=>", m["check"], ",".join(sigs)[:100], flush=True)
            sh(["git", "-C", wt, "checkout", "--", "."])
            json.dump(state, open(state_file, "w"), indent=1)
    finally:
        sh(["git", "-C", "/repo", "worktree", "remove", "--force", wt])
        sh(["git", "-C", "/repo", "worktree", "prune"])
        json.dump(state, open(state_file, "w"), indent=1)


def report():
    lines = ["# Mutation sweep (tools/mutsweep.py)\n",
             "Syntactic mutants of the files each claimed property is anchored in (operators: delete call / defer / assignment / early return,",
             "run a deferred call at once, call instead of `go`, negate / fix a condition, swap a relational, logical or additive operator,",
             "constant+1, dead select arm, swap break/continue, RLock<->Lock, After<->Before). A mutant counts only if it compiles and the",
             "repository's whole test suite still passes with it, without and with `-tags unit`. `missed` mutants are triaged in the last column",
             "(equivalent = no behaviour a user can observe changes, or the change lies outside what the property states).\n",
             "| property | sampled | no compile | killed by tests | survive tests | caught by check | missed |", "|---|---|---|---|---|---|---|"]
    detail = []
    tri = json.load(open(OUT + "/triage.json")) if os.path.exists(OUT + "/triage.json") else {}
    for f in sorted(os.listdir(OUT)):
        if not re.match(r"C\d\d\.json", f):
            continue
        st = json.load(open(OUT + "/" + f))
        ms = list(st["mutants"].values())
        c = lambda k, v: sum(1 for m in ms if m.get(k) == v)
        lines.append("| %s | %d | %d | %d | %d | %d | %d |" % (st["property"], len(ms), c("gate", "no-compile"), c("gate", "killed-by-tests"),
                                                             c("gate", "survives-tests"), c("check", "caught"), c("check", "missed")))
        for m in sorted(ms, key=lambda m: (m["file"], m["line"])):
            if m.get("check") == "missed" or str(m.get("check", "")).startswith("exit"):
                detail.append("| %s | %s | %s:%d `%s` | %s | %s | %s |" % (st["property"], m["id"], m["file"], m["line"], m["func"], m["desc"].replace("|", "\\|").replace("\n", " ")[:160],
                                                                          m["check"], tri.get(m["id"], "")))
    lines += ["", "## Mutants the checks did not report", "", "| property | id | where | mutation | result | triage |", "|---|---|---|---|---|---|"] + detail
    open(OUT + "/REPORT.md", "w").write("\n".join(lines) + "\n")
    print("\n".join(lines[7:7 + 20]))


if __name__ == "__main__":
    cmd = sys.argv[1]
    if cmd == "gate":
        gate(sys.argv[2], int(sys.argv[3]) if len(sys.argv) > 3 else 60)
    elif cmd == "check":
        check(sys.argv[2], recheck="--recheck" in sys.argv)
    elif cmd == "report":
        report()
