#!/bin/bash
# apply a patch to a scratch worktree of /repo (never /repo itself), run a check against it, remove the worktree.
# usage: mutwt.sh <patch> <ID> [tier] [lines]
WT=/tmp/mutwt-$$
git -C /repo worktree add -q --detach $WT HEAD || exit 3
trap 'git -C /repo worktree remove --force $WT; git -C /repo worktree prune' EXIT
( cd $WT && git apply "$1" ) || exit 3
cd /verif && VERIF_REPO=$WT ./check $2 ${3:-quick} 2>&1 | grep -v KNOWN-FINDING | cut -c1-500 | head -${4:-6}; echo "exit=${PIPESTATUS[0]}"
