#!/bin/bash
# seedwave.sh <ID> <tag> <pkgdir> : verify /tmp/seed3-<tag>, run check <ID>, and every patch-*-only.diff variant
ID=$1; TAG=$2; PKG=$3
SUF=${TAG#c??}
tools/seedcheck.sh $ID /tmp/seed${WAVE:-3}-$TAG /tmp/seedout${WAVE:-3}/$TAG $PKG $SUF $ID 2>&1 | cut -c1-230 | tail -40
for v in /tmp/seedout${WAVE:-3}/$TAG/patch-*-only.diff; do [ -f "$v" ] || continue; echo "== variant $(basename $v)"; tools/variant.sh /tmp/seed${WAVE:-3}-$TAG $v $ID | tail -3 | cut -c1-230; cp $v /verif/seeded/$ID$SUF/; done
