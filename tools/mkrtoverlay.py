#!/usr/bin/env python3
"""Generate the runtime overlay: a patched copy of runtime/select.go whose poll order inside a
synctest bubble comes from a state word the simulator seeds per run, plus one added file with
the state word and a goroutine-id accessor. Output: <outdir>/select.go, <outdir>/zz_sim.go and
<outdir>/overlay.json (a go build -overlay map fragment)."""
import json, os, subprocess, sys

def main():
    outdir = os.path.abspath(sys.argv[1])
    goroot = subprocess.check_output(["go1.26.8", "env", "GOROOT"], text=True).strip()
    src = os.path.join(goroot, "src", "runtime", "select.go")
    text = open(src).read()
    needle = "j := cheaprandn(uint32(norder + 1))"
    if text.count(needle) != 1:
        print("mkrtoverlay: cannot find the poll-order line in", src, file=sys.stderr)
        sys.exit(2)
    text = text.replace(needle, "j := simSelectRand(uint32(norder + 1))")
    os.makedirs(outdir, exist_ok=True)
    open(os.path.join(outdir, "select.go"), "w").write(text)
    open(os.path.join(outdir, "zz_sim.go"), "w").write('''// Added by /verif/tools/mkrtoverlay.py (build overlay only; the toolchain on disk is untouched).
package runtime

import _ "unsafe"

// simSelectState, when non-zero, seeds the poll order of select statements executed by
// goroutines inside a synctest bubble. Outside bubbles, or when zero, behaviour is stock.
//
//go:linkname simSelectState
var simSelectState uint64

// simGoid returns the current goroutine's id (cheap identity for the simulator).
//
//go:linkname simGoid
func simGoid() uint64 { return getg().goid }

func simSelectRand(n uint32) uint32 {
	if simSelectState == 0 || getg().bubble == nil {
		return cheaprandn(n)
	}
	x := simSelectState
	x ^= x << 13
	x ^= x >> 7
	x ^= x << 17
	if x == 0 {
		x = 0x9e3779b97f4a7c15
	}
	simSelectState = x
	return uint32((uint64(uint32(x>>32)) * uint64(n)) >> 32)
}
''')
    ov = {"Replace": {src: os.path.join(outdir, "select.go"),
                      os.path.join(goroot, "src", "runtime", "zz_sim.go"): os.path.join(outdir, "zz_sim.go")}}
    json.dump(ov, open(os.path.join(outdir, "overlay.json"), "w"), indent=1)

if __name__ == "__main__":
    main()
