#!/bin/bash
# Verify a sub-agent's seeded change and run our check against it.
# usage: seedcheck.sh <ID> <worktree> <outdir> <pkgdir relative> [suffix] [check ids...]
ID=$1; WT=$2; OUT=$3; PKG=$4; SUF=${5:-}; shift 5
CHECKS=${@:-$ID}
export GOFLAGS=-mod=mod GOPROXY=off GOSUMDB=off
cd $WT || exit 2
DEMO=$(git status --short | grep '^??' | awk '{print $2}' | grep _test.go | head -1)
TESTS=$(grep -h '^func Test' $DEMO | sed 's/func \(Test[A-Za-z0-9_]*\).*/\1/' | paste -sd'|')
echo "== $ID$SUF demo=$DEMO tests=$TESTS"
git diff > /tmp/seedcheck-$ID.diff
if [ -f $OUT/patch.diff ] && ! diff -q <(grep '^[+-]' $OUT/patch.diff | grep -v '^index') <(grep '^[+-]' /tmp/seedcheck-$ID.diff | grep -v '^index') >/dev/null; then echo "!! worktree diff differs from the agent's patch.diff"; fi
echo "-- existing tests with the change (demo moved aside)"
mv $DEMO /tmp/seedcheck-demo.go
go test -count=1 -vet=off -tags unit ./$PKG/... 2>&1 | tail -3
go test -count=1 -vet=off ./$PKG/... 2>&1 | tail -3
mv /tmp/seedcheck-demo.go $DEMO
echo "-- demo WITH change (expect FAIL)"
go test -count=1 -vet=off -tags unit -run "$TESTS" ./$(dirname $DEMO)/ 2>&1 | tail -3
echo "-- demo WITHOUT change (expect ok)"
git checkout -- .   # (git stash is shared between worktrees: do not use it)
go test -count=1 -vet=off -tags unit -run "$TESTS" ./$(dirname $DEMO)/ 2>&1 | tail -3
git apply /tmp/seedcheck-$ID.diff
echo "-- our checks against the change"
cd /verif
for c in $CHECKS; do
  VERIF_REPO=$WT ./check $c quick 2>&1 | grep -v KNOWN-FINDING | cut -c1-260 | head -6
  echo "check $c exit=${PIPESTATUS[0]}"
done
mkdir -p /verif/seeded/$ID$SUF
cp /tmp/seedcheck-$ID.diff /verif/seeded/$ID$SUF/patch.diff
cp $WT/$DEMO /verif/seeded/$ID$SUF/$(basename $DEMO)
[ -f $OUT/NOTES.md ] && cp $OUT/NOTES.md /verif/seeded/$ID$SUF/NOTES.md
echo "demo_dir=$(dirname $DEMO)" > /verif/seeded/$ID$SUF/.demo_dir
