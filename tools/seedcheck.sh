#!/bin/bash
# Verify a sub-agent's seeded change and run our check against it.
# usage: seedcheck.sh <ID> <worktree> <outdir> <pkgdir relative> [suffix] [check ids...]
ID=$1; WT=$2; OUT=$3; PKG=$4; SUF=${5:-}; shift 5
CHECKS=${@:-$ID}
export GOFLAGS=-mod=mod GOPROXY=off GOSUMDB=off
cd $WT || exit 2
DEMOS=$(git status --short | grep '^??' | awk '{print $2}' | grep _test.go)
echo "== $ID$SUF demos=$(echo $DEMOS)"
git diff > /tmp/seedcheck-$ID.diff
if [ -f $OUT/patch.diff ] && ! diff -q <(grep '^[+-]' $OUT/patch.diff | grep -v '^index') <(grep '^[+-]' /tmp/seedcheck-$ID.diff | grep -v '^index') >/dev/null; then echo "!! worktree diff differs from the agent's patch.diff"; fi
echo "-- existing tests with the change (demos moved aside): whole module, with and without the unit tag"
mkdir -p /tmp/seedcheck-demos-$ID; for d in $DEMOS; do mv $d /tmp/seedcheck-demos-$ID/$(echo $d | tr / %); done
go test -count=1 -vet=off -tags unit ./... 2>&1 | grep -v "^ok\|no test files" | tail -5
go test -count=1 -vet=off ./... 2>&1 | grep -v "^ok\|no test files\|build failed\|^FAIL$\|WithFatalShutdown\|RateLimiterWithTicker\|WithBatcher\|^#" | tail -5
for d in $DEMOS; do mv /tmp/seedcheck-demos-$ID/$(echo $d | tr / %) $d; done
for DEMO in $DEMOS; do
  TESTS=$(grep -h '^func Test' $DEMO | sed 's/func \(Test[A-Za-z0-9_]*\).*/\1/' | paste -sd'|')
  echo "-- $DEMO WITH change (expect FAIL)"
  go test -count=1 -vet=off -tags unit -run "$TESTS" ./$(dirname $DEMO)/ 2>&1 | tail -2
done
git checkout -- .   # (git stash is shared between worktrees: do not use it)
for DEMO in $DEMOS; do
  TESTS=$(grep -h '^func Test' $DEMO | sed 's/func \(Test[A-Za-z0-9_]*\).*/\1/' | paste -sd'|')
  echo "-- $DEMO WITHOUT change (expect ok)"
  go test -count=1 -vet=off -tags unit -run "$TESTS" ./$(dirname $DEMO)/ 2>&1 | tail -2
done
git apply /tmp/seedcheck-$ID.diff
echo "-- our checks against the change"
cd /verif
for c in $CHECKS; do
  VERIF_REPO=$WT ./check $c quick 2>&1 | grep -v KNOWN-FINDING | cut -c1-260 | head -8
  echo "check $c exit=${PIPESTATUS[0]}"
done
mkdir -p /verif/seeded/$ID$SUF
cp /tmp/seedcheck-$ID.diff /verif/seeded/$ID$SUF/patch.diff
for DEMO in $DEMOS; do cp $WT/$DEMO /verif/seeded/$ID$SUF/$(dirname $DEMO | tr / _)__$(basename $DEMO); done
[ -f $OUT/NOTES.md ] && cp $OUT/NOTES.md /verif/seeded/$ID$SUF/NOTES.md
echo "demo_dirs=$(for d in $DEMOS; do dirname $d; done | sort -u | paste -sd,)" > /verif/seeded/$ID$SUF/.demo_dir
rm -rf /tmp/seedcheck-demos-$ID /tmp/seedcheck-$ID.diff
