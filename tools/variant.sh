#!/bin/bash
# run checks against a single-hunk variant of a seeded change: variant.sh <worktree> <patchfile> <check...>
WT=$1; P=$2; shift 2
FULL=/tmp/variant-full-$(basename $WT).diff
cd $WT && git diff > $FULL && git checkout -- . && git apply $P || { echo "apply failed"; exit 2; }
cd /verif
for c in "$@"; do VERIF_REPO=$WT ./check $c quick 2>&1 | grep -v KNOWN-FINDING | cut -c1-230 | head -4; echo "check $c exit=${PIPESTATUS[0]}"; done
cd $WT && git checkout -- . && git apply $FULL; rm -f $FULL
