#!/bin/bash
# dev helper: build one harness and run one worker; usage: runw.sh c06 SEED FROM TO [tier]
set -e
cd /verif
export GOFLAGS=-mod=mod GOPROXY=off GOSUMDB=off GOTOOLCHAIN=local PATH=/verif/.work/gobin:$PATH
h=$1
python3 - <<'PY'
import sys
sys.argv=['check']
exec(open('/verif/check').read().split('if __name__')[0])
ov,_=weave('/verif/.work', ALL_WOVEN, ['concurrency/dir'])
PY
go test -c -tags unit -overlay .work/overlay.json -o .work/$h.test ./harness/$h/
rm -rf .work/replays-dev; 
VERIF_SEED=$2 VERIF_FROM=$3 VERIF_TO=$4 VERIF_TIER=${5:-quick} VERIF_OUT=/verif/.work/dev-out.json VERIF_SCRATCH=/verif/.work/dev-scratch VERIF_REPLAY_DIR=/verif/.work/replays-dev GOMAXPROCS=1 timeout 900 .work/$h.test -test.run TestWorker -test.timeout 0 2>&1 | tail -50 | python3 -c "
import sys,json
raw=sys.stdin.read()
try:
  d=json.load(open('/verif/.work/dev-out.json'))
  for k in ['runs','nontrivial_runs','steps','switches','sim_time_ns','leaked_runs','faults','probes','violations_by_signature','distinct_local','wall_s']: print(k,d[k])
  for v in d['violations'][:6]: print(v)
  for v in d['samples'][:2]: print(v)
except Exception as e: print(e); print(raw[-6000:])
"
