#!/usr/bin/env python3
"""After repairs in /repo: re-anchor every seeded patch that no longer applies to /repo HEAD (git apply --3way in a
scratch worktree, then git diff). Patches that conflict are listed for porting by hand."""
import glob, os, subprocess, sys
WT = "/tmp/seedrebase-%d" % os.getpid()
def sh(*a, **k):
    return subprocess.run(a, stdout=subprocess.PIPE, stderr=subprocess.STDOUT, text=True, **k)
sh("git", "-C", "/repo", "worktree", "add", "--detach", WT, "HEAD")
ok, rebased, manual = 0, [], []
try:
    for p in sorted(glob.glob("/verif/seeded/C*/patch*.diff")):
        sh("git", "-C", WT, "reset", "-q", "--hard", "HEAD"); sh("git", "-C", WT, "clean", "-fdq")
        if sh("git", "-C", WT, "apply", "--check", p).returncode == 0:
            ok += 1
            continue
        r = sh("git", "-C", WT, "apply", "--3way", p)
        conflict = r.returncode != 0 or "<<<<<<<" in sh("git", "-C", WT, "diff").stdout or "U" in [l[:1] for l in sh("git", "-C", WT, "status", "--porcelain").stdout.splitlines()]
        if conflict:
            manual.append((p, r.stdout.strip().splitlines()[-1] if r.stdout.strip() else ""))
            continue
        sh("git", "-C", WT, "reset", "-q")
        d = sh("git", "-C", WT, "diff").stdout
        if not d.strip():
            manual.append((p, "3way result is empty (change already in the tree?)"))
            continue
        if "--write" in sys.argv:
            open(p, "w").write(d)
        rebased.append(p)
finally:
    sh("git", "-C", "/repo", "worktree", "remove", "--force", WT); sh("git", "-C", "/repo", "worktree", "prune")
print("apply as they are:", ok)
print("re-anchored:", len(rebased))
for p in rebased: print("  ", p)
print("need porting by hand:", len(manual))
for p, why in manual: print("  ", p, "|", why)
