#!/usr/bin/env python3
"""Re-run the quick checks against every seeded change (and every single-hunk variant) in a scratch
worktree, and record which oracles fire: seeded/REGRESSION.md. Usage: tools/seeded_regress.py [ID-prefix ...]"""
import glob, json, os, re, subprocess, sys
V = "/verif"
WT = "/tmp/seedreg-%d" % os.getpid()
env = dict(os.environ, GOFLAGS="-mod=mod", GOPROXY="off", GOSUMDB="off", GOTOOLCHAIN="local")
def sh(*a, **k):
    return subprocess.run(a, stdout=subprocess.PIPE, stderr=subprocess.STDOUT, text=True, env=env, **k)
sh("git", "-C", "/repo", "worktree", "add", "--detach", WT, "HEAD")
rows = []
try:
    for d in sorted(glob.glob(V + "/seeded/C*")):
        name = os.path.basename(d)
        if sys.argv[1:] and not any(name.startswith(p) for p in sys.argv[1:]):
            continue
        meta = json.load(open(d + "/meta.json"))
        checks = list(meta["caught_by"].keys())
        harmless = set(meta.get("harmless_alone", []))
        notcaught = set(meta.get("not_caught_alone", []))  # documented limits of the technique (see meta.json / DESIGN.md 9.6)
        notcaught_by = meta.get("not_caught_alone_by", {})
        patches = [d + "/patch.diff"] + sorted(p for p in glob.glob(d + "/patch-*-only.diff"))
        for p in patches:
            sh("git", "-C", WT, "checkout", "--", ".")
            sh("git", "-C", WT, "clean", "-fdq")
            r = sh("git", "-C", WT, "apply", p)
            if r.returncode != 0:
                rows.append((name, os.path.basename(p), "-", "PATCH DOES NOT APPLY", ""))
                continue
            for c in checks:
                only = meta.get("only_patches", {}).get(c)
                if only is not None and os.path.basename(p) not in only:
                    continue
                e2 = dict(env, VERIF_REPO=WT)
                r = subprocess.run([V + "/check", c, "quick"], stdout=subprocess.PIPE, stderr=subprocess.STDOUT, text=True, env=e2, cwd=V)
                sigs = sorted(set(re.findall(r"signature=(\S+)", r.stdout)))
                bn = os.path.basename(p)
                exp = "caught"
                if bn in harmless:
                    exp = "quiet (harmless alone)"
                elif bn in notcaught or bn in notcaught_by.get(c, []):
                    exp = "quiet (documented: not decidable by this check)"
                got = "caught" if r.returncode == 1 and sigs else ("quiet" if r.returncode == 0 else "exit %d" % r.returncode)
                ok = (got == "caught") == (exp == "caught")
                rows.append((name, os.path.basename(p), c, (got if exp == "caught" or not ok else exp) + ("" if ok else "  <-- UNEXPECTED"), ", ".join(sigs)))
                print(rows[-1], flush=True)
finally:
    sh("git", "-C", "/repo", "worktree", "remove", "--force", WT)
    sh("git", "-C", "/repo", "worktree", "prune")
J = V + "/seeded/regression.json"
allrows = {}
if os.path.exists(J):
    allrows = {tuple(r[:3]): tuple(r) for r in json.load(open(J))}
for r in rows:
    allrows[tuple(r[:3])] = tuple(r)
    if r[2] != "-":
        allrows.pop((r[0], r[1], "-"), None)  # an earlier "does not apply" row of a patch that has since been ported
json.dump(sorted(allrows.values()), open(J, "w"), indent=0)
with open(V + "/seeded/REGRESSION.md", "w") as f:
    f.write("# Quick checks against every seeded change (tools/seeded_regress.py)\n\nLast result per (change, patch, check); `quiet (harmless alone)` rows are halves of a two-site change that break nothing alone.\n\n| change | patch | check | result | oracles that fired |\n|---|---|---|---|---|\n")
    for r in sorted(allrows.values()):
        f.write("| %s | %s | %s | %s | %s |\n" % tuple(r))
bad = [r for r in rows if "UNEXPECTED" in r[3] or "APPLY" in r[3]]
print("unexpected:", bad)
sys.exit(1 if bad else 0)
