#!/usr/bin/env python3
"""Regenerates MANIFEST.json from checks.py + manifest_meta.py (run by hand after editing them)."""
import json, os
V = os.path.dirname(os.path.dirname(os.path.abspath(__file__)))
CHECKS = {}
def reg(pid, **kw):
    CHECKS[pid] = kw
exec(open(os.path.join(V, "checks.py")).read())
META = {}
exec(open(os.path.join(V, "manifest_meta.py")).read())
base = json.load(open("/root/.vp/BASELINE.json"))
checks = []
for pid in sorted(CHECKS):
    m = META[pid]
    checks.append({
        "property_id": pid,
        "quick_cmd": "./check %s quick" % pid,
        "thorough_cmd": "./check %s thorough" % pid,
        "evidence_file": "/verif/evidence/%s.json" % pid,
        "replay_cmd_template": "./check %s --replay {path}" % pid,
        "engine": "simrt",
        "level_claimed": {"category": CHECKS[pid].get("level", "exploration"), "text": m["text"], "design_ref": m["ref"]},
        "level_note": m["note"],
        "technique": m["technique"],
    })
man = {
    "version": 1,
    "setup_cmd": "./check --setup",
    "hooks": {
        "guard": "build overlay produced by /verif/tools/weaver (go build -overlay); no source hooks in /repo",
        "enable": "./check weaves /repo's current working tree into /verif/.work/<id>/woven on every run and builds the harness with -overlay (Go 1.26.8, -tags unit)",
        "baseline_off_cmd": base["cmd"],
        "source_commits": [],
        "add_only": True,
    },
    "engines": [{"name": "simrt", "path": "/verif/simrt", "serves_properties": sorted(CHECKS),
                 "kind_free_text": "deterministic simulation: seeded scheduler over testing/synctest bubbles (fake clock), woven yield points, modelled mutexes, seeded select order (runtime overlay), choice tape with shrinking and exact replay, fault injection"}],
    "checks": checks,
    "not_applicable": NOT_APPLICABLE,
    "notes": NOTES,
}
json.dump(man, open(os.path.join(V, "MANIFEST.json"), "w"), indent=1)
print("MANIFEST.json:", len(checks), "checks,", len(NOT_APPLICABLE), "not applicable")
